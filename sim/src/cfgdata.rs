//! Data the properties are stated relative to ("the configured table"), read
//! from the repository's config.json at start-up: rate table, currency
//! aliases, zone table, month names, unit families.  Only *data* is taken from
//! there; the formulas are the models' own.

use std::collections::{BTreeMap, BTreeSet};

use serde_json::Value;

#[derive(Debug, Clone)]
pub struct Currency {
    pub code: String,
    pub symbol: String,
    pub symbol_on_left: bool,
    pub space: bool,
    pub digits: u8,
}

#[derive(Debug, Clone)]
pub struct UnitItem {
    pub family: String,
    pub index: usize,
    pub names: Vec<String>,
    /// words the literal reader accepts for this unit ({TEXT:type:<word>})
    pub parse_words: Vec<String>,
    pub format: String,
}

#[derive(Debug, Clone)]
pub struct LangData {
    pub long_months: BTreeMap<String, u32>,
    pub short_months: BTreeMap<String, u32>,
    pub duration_words: BTreeMap<String, i64>,
    pub today_words: BTreeMap<String, i64>,
    pub aliases: Vec<String>,
    pub all_words: BTreeSet<String>,
}

#[derive(Debug, Clone)]
pub struct CfgData {
    pub rates: BTreeMap<String, f64>,
    /// alias (lower case) -> code (upper case)
    pub currency_alias: BTreeMap<String, String>,
    pub currencies: BTreeMap<String, Currency>,
    pub zones: BTreeMap<String, i32>,
    pub langs: BTreeMap<String, LangData>,
    pub units: Vec<UnitItem>,
    /// every word that means something to the tokenizer in some language
    pub reserved_words: BTreeSet<String>,
}

pub fn repo_path() -> String {
    std::env::var("VERIF_REPO").unwrap_or_else(|_| "/repo".to_string())
}

impl CfgData {
    pub fn load() -> CfgData {
        let path = format!("{}/src/json/config.json", repo_path());
        let txt = std::fs::read_to_string(&path).unwrap_or_else(|e| panic!("cannot read {}: {}", path, e));
        let v: Value = serde_json::from_str(&txt).expect("config.json parses");
        let mut rates = BTreeMap::new();
        for (k, r) in v["currency_rates"].as_object().unwrap() {
            rates.insert(k.to_uppercase(), r.as_f64().unwrap());
        }
        let mut currencies = BTreeMap::new();
        for (k, c) in v["currencies"].as_object().unwrap() {
            currencies.insert(k.to_uppercase(), Currency {
                code: c["code"].as_str().unwrap().to_string(),
                symbol: c["symbol"].as_str().unwrap().to_string(),
                symbol_on_left: c["symbolOnLeft"].as_bool().unwrap(),
                space: c["spaceBetweenAmountAndSymbol"].as_bool().unwrap(),
                digits: c["decimalDigits"].as_u64().unwrap() as u8,
            });
        }
        let mut currency_alias = BTreeMap::new();
        for (k, c) in v["currency_alias"].as_object().unwrap() {
            currency_alias.insert(k.to_lowercase(), c.as_str().unwrap().to_uppercase());
        }
        let mut zones = BTreeMap::new();
        for (k, o) in v["timezones"].as_object().unwrap() {
            zones.insert(k.to_string(), o.as_i64().unwrap() as i32);
        }
        let mut reserved: BTreeSet<String> = BTreeSet::new();
        let mut langs = BTreeMap::new();
        for (lang, l) in v["languages"].as_object().unwrap() {
            let mut ld = LangData { long_months: BTreeMap::new(), short_months: BTreeMap::new(), duration_words: BTreeMap::new(), today_words: BTreeMap::new(), aliases: vec![], all_words: BTreeSet::new() };
            // Only ONE long and ONE short spelling per month is effective: the loader keeps, per month number,
            // the last name in key order (the ASCII variants of the Turkish tables are overwritten).  Which
            // spellings a language offers is C19's subject; the generators use the effective ones.
            for table in ["long_months", "short_months"] {
                let mut eff: BTreeMap<u32, String> = BTreeMap::new();
                let sorted: BTreeMap<String, u32> = l[table].as_object().unwrap().iter().map(|(k, n)| (k.clone(), n.as_u64().unwrap() as u32)).collect();
                for (k, n) in sorted.iter() { eff.insert(*n, k.clone()); ld.all_words.insert(k.to_lowercase()); }
                for (n, k) in eff { if table == "long_months" { ld.long_months.insert(k, n); } else { ld.short_months.insert(k, n); } }
            }
            for (k, n) in l["constant_pair"].as_object().unwrap() {
                ld.all_words.insert(k.to_lowercase());
                let secs = match n.as_u64().unwrap() {
                    1 => 86400, 2 => 7 * 86400, 3 => 30 * 86400, 4 => 365 * 86400, 5 => 1, 6 => 60, 7 => 3600,
                    8 => { ld.today_words.insert(k.clone(), 0); 0 }
                    9 => { ld.today_words.insert(k.clone(), 1); 0 }
                    10 => { ld.today_words.insert(k.clone(), -1); 0 }
                    _ => 0,
                };
                if secs > 0 { ld.duration_words.insert(k.clone(), secs); }
            }
            for (k, _) in l["alias"].as_object().unwrap() { ld.aliases.push(k.clone()); ld.all_words.insert(k.to_lowercase()); }
            for (_, g) in l["word_group"].as_object().unwrap() {
                for w in g.as_array().unwrap() { ld.all_words.insert(w.as_str().unwrap().to_lowercase()); }
            }
            // literal words inside rule patterns ("on", "of", "is", "what", "date", "unix" ...)
            for (_, r) in l["rules"].as_object().unwrap() {
                for p in r["rules"].as_array().unwrap() {
                    let p = p.as_str().unwrap();
                    let mut depth = 0;
                    let mut cur = String::new();
                    for c in p.chars() {
                        match c {
                            '{' => { depth += 1; }
                            '}' => { depth -= 1; }
                            _ if depth == 0 && c.is_alphabetic() => cur.push(c),
                            _ => { if !cur.is_empty() { ld.all_words.insert(cur.to_lowercase()); cur.clear(); } }
                        }
                    }
                    if !cur.is_empty() { ld.all_words.insert(cur.to_lowercase()); }
                    // {TEXT:name:expected}
                    for part in p.split('{').skip(1) {
                        let inner = part.split('}').next().unwrap_or("");
                        let f: Vec<&str> = inner.split(':').collect();
                        if f.len() == 3 && f[0] == "TEXT" { ld.all_words.insert(f[2].to_lowercase()); }
                    }
                }
            }
            for w in ld.all_words.iter() { reserved.insert(w.clone()); }
            langs.insert(lang.clone(), ld);
        }
        let mut units = Vec::new();
        for t in v["types"].as_array().unwrap() {
            let family = t["name"].as_str().unwrap().to_string();
            for it in t["items"].as_array().unwrap() {
                let mut parse_words = Vec::new();
                for p in it["parse"].as_array().unwrap() {
                    let p = p.as_str().unwrap();
                    if let Some(pos) = p.find("{TEXT:type:") {
                        let w = &p[pos + 11..];
                        if let Some(end) = w.find('}') { parse_words.push(w[..end].to_string()); }
                    } else {
                        // "{NUMBER:value} megabyte"
                        if let Some(w) = p.split(' ').nth(1) { parse_words.push(w.to_string()); }
                    }
                }
                let names: Vec<String> = it["names"].as_array().unwrap().iter().map(|x| x.as_str().unwrap().to_string()).collect();
                for n in names.iter().chain(parse_words.iter()) { reserved.insert(n.to_lowercase()); }
                units.push(UnitItem { family: family.clone(), index: it["index"].as_u64().unwrap() as usize, names, parse_words, format: it["format"].as_str().unwrap().to_string() });
            }
        }
        for k in currencies.keys() { reserved.insert(k.to_lowercase()); }
        for k in currency_alias.keys() { reserved.insert(k.to_lowercase()); }
        for k in zones.keys() { reserved.insert(k.to_lowercase()); }
        for w in ["gmt", "am", "pm", "k", "m", "g", "t", "p", "z", "y"] { reserved.insert(w.to_string()); }
        CfgData { rates, currency_alias, currencies, zones, langs, units, reserved_words: reserved }
    }

    /// currency a word denotes for the literal reader: alias first, then code
    pub fn read_currency(&self, word: &str) -> Option<String> {
        let w = word.to_lowercase();
        if let Some(c) = self.currency_alias.get(&w) { return Some(c.clone()); }
        let up = w.to_uppercase();
        if self.currencies.contains_key(&up) { return Some(up); }
        None
    }

    /// all spellings (lower case) that denote `code`: its code and its aliases
    pub fn currency_words(&self, code: &str) -> Vec<String> {
        let mut v = vec![code.to_lowercase()];
        for (a, c) in &self.currency_alias {
            if c == code && a.chars().all(|ch| ch.is_ascii_alphabetic()) && a.len() >= 2 && *a != code.to_lowercase() { v.push(a.clone()); }
        }
        v
    }

    pub fn currency_symbols(&self, code: &str) -> Vec<String> {
        let mut v = vec![];
        for (a, c) in &self.currency_alias {
            if c == code && a.chars().count() == 1 && !a.chars().next().unwrap().is_alphanumeric() { v.push(a.clone()); }
        }
        v
    }

    /// is `w` free of any meaning for the tokenizer (usable inside a variable name)?
    pub fn is_plain_word(&self, w: &str) -> bool {
        let l = w.to_lowercase();
        if self.reserved_words.contains(&l) { return false; }
        // 2-4 letter words could be zone abbreviations; notation letters bind to numbers
        if l.chars().count() < 5 { return false; }
        if !l.chars().all(|c| c.is_alphabetic()) { return false; }
        true
    }
}
