//! One calculator with its sessions, driven through the public API only,
//! together with a mirror of the configuration the administrator has set
//! (used for rendering literals and by the models).

use std::cell::RefCell;
use std::collections::BTreeMap;
use std::rc::Rc;

use serde::{Deserialize, Serialize};
use smartcalc::{Session, SmartCalc};

use crate::cfgdata::CfgData;
use crate::clock::{self, ClockLog, ClockScript};
use crate::lang::{render_stmt, Fmt};
use crate::obs::{observe_call, CallObs, LineObs, PanicInfo, Slot};
use crate::project_result;
use crate::rules::{CallLog, NestCtl, NestState, PendingInner, SimRule};
use crate::trace::{split_lines, AdminOp, Line, RuleSpec, TextSpec, TypeItemSpec};

#[derive(Debug, Clone, PartialEq, Serialize, Deserialize)]
pub enum AdminObs {
    Unit,
    Bool(bool),
    Res(Result<(), String>),
    Unwound(PanicInfo),
}

/// Mirror of what the administrator configured; also the registration model
/// (twenty lines: configured languages, ordered live rules with first-match
/// deletion, families with their index sets).
#[derive(Debug, Clone)]
pub struct CfgModel {
    pub fmt: Fmt,
    pub zone: (String, i32),
    pub rates: BTreeMap<String, f64>,
    pub langs: Vec<String>,
    pub rules: BTreeMap<String, Vec<RuleSpec>>,
    pub families: BTreeMap<String, BTreeMap<usize, TypeItemSpec>>,
    pub builtin_families: Vec<String>,
    pub number_cfg: (u8, bool, bool),
    pub percent_cfg: (u8, bool, bool),
    pub money_cfg: (bool, bool),
}

impl CfgModel {
    pub fn new(data: &CfgData) -> CfgModel {
        let mut builtin: Vec<String> = data.units.iter().map(|u| u.family.clone()).collect();
        builtin.dedup();
        CfgModel {
            fmt: Fmt::default(),
            zone: ("UTC".into(), 0),
            rates: data.rates.clone(),
            langs: data.langs.keys().cloned().collect(),
            rules: BTreeMap::new(),
            families: BTreeMap::new(),
            builtin_families: builtin,
            number_cfg: (2, true, true),
            percent_cfg: (2, true, true),
            money_cfg: (false, true),
        }
    }

    /// What the call must return according to the property statements, and
    /// the effect on the mirror.  `None` = the statement does not say.
    pub fn apply(&mut self, data: &CfgData, op: &AdminOp) -> Option<AdminObs> {
        match op {
            AdminOp::UpdateCurrency { name, rate } => match data.read_currency(name) {
                Some(code) => { self.rates.insert(code, *rate); Some(AdminObs::Bool(true)) }
                None => Some(AdminObs::Bool(false)),
            },
            AdminOp::SetTimezone { tz } => match parse_zone(data, tz) {
                Some((name, off)) => { self.zone = (name, off); Some(AdminObs::Res(Ok(()))) }
                None => None, // rejection message not specified; executor checks "is Err" via zone_valid
            },
            AdminOp::SetDecimalSep { s } => { self.fmt.dec = s.clone(); Some(AdminObs::Unit) }
            AdminOp::SetThousandSep { s } => { self.fmt.thou = s.clone(); Some(AdminObs::Unit) }
            AdminOp::SetNumberCfg { digits, remove_zero, rounding } => { self.number_cfg = (*digits, *remove_zero, *rounding); Some(AdminObs::Unit) }
            AdminOp::SetPercentCfg { digits, remove_zero, rounding } => { self.percent_cfg = (*digits, *remove_zero, *rounding); Some(AdminObs::Unit) }
            AdminOp::SetMoneyCfg { remove_zero, rounding } => { self.money_cfg = (*remove_zero, *rounding); Some(AdminObs::Unit) }
            AdminOp::SetDateRule { mdy } => { self.fmt.mdy = *mdy; Some(AdminObs::Unit) }
            AdminOp::LoadTable { usd } => { self.rates.insert("USD".into(), *usd); Some(AdminObs::Unit) }
            AdminOp::AddRule { lang, rule } => {
                if self.langs.contains(lang) {
                    self.rules.entry(lang.clone()).or_default().push(rule.clone());
                    Some(AdminObs::Bool(true))
                } else {
                    Some(AdminObs::Bool(false))
                }
            }
            AdminOp::DeleteRule { lang, name } => {
                match self.rules.get_mut(lang) {
                    Some(list) => match list.iter().position(|r| &r.name == name) {
                        Some(p) => { list.remove(p); Some(AdminObs::Bool(true)) }
                        None => Some(AdminObs::Bool(false)),
                    },
                    None => Some(AdminObs::Bool(false)),
                }
            }
            AdminOp::AddType { name } => {
                if self.families.contains_key(name) || self.builtin_families.contains(name) {
                    Some(AdminObs::Bool(false))
                } else {
                    self.families.insert(name.clone(), BTreeMap::new());
                    Some(AdminObs::Bool(true))
                }
            }
            AdminOp::AddTypeItem(item) => {
                if self.builtin_families.contains(&item.family) {
                    return None; // adding to a built-in family: not covered by the statement
                }
                match self.families.get_mut(&item.family) {
                    Some(f) => {
                        if f.contains_key(&item.index) { Some(AdminObs::Bool(false)) } else { f.insert(item.index, item.clone()); Some(AdminObs::Bool(true)) }
                    }
                    None => Some(AdminObs::Bool(false)),
                }
            }
        }
    }
}

/// zone strings the administrator may pass: a table abbreviation (any case) or
/// GMT[+-]h[:mm]; returns (upper-case name, offset minutes)
pub fn parse_zone(data: &CfgData, tz: &str) -> Option<(String, i32)> {
    // set_timezone takes the string as written: table abbreviations and "GMT" are upper case
    let up = tz.to_string();
    if !up.chars().all(|c| c.is_ascii_uppercase() || c.is_ascii_digit() || c == '+' || c == '-' || c == ':') { return None; }
    if let Some(off) = data.zones.get(&up) { return Some((up, *off)); }
    if let Some(rest) = up.strip_prefix("GMT") {
        if rest.is_empty() { return None; }
        let (sign, digits) = match rest.as_bytes()[0] { b'+' => (1, &rest[1..]), b'-' => (-1, &rest[1..]), _ => (1, rest) };
        let (h, m) = match digits.split_once(':') {
            Some((h, m)) => (h, m),
            None => if digits.len() > 2 { (&digits[..digits.len() - 2], &digits[digits.len() - 2..]) } else { (digits, "0") },
        };
        let h: i32 = h.parse().ok()?;
        let m: i32 = m.parse().ok()?;
        if h > 19 || m > 59 { return None; }
        return Some((up.clone(), sign * (h * 60 + m)));
    }
    None
}

/// a zone of the table followed by a character that cannot belong to a zone name and then anything
/// ("EST/EDT", "CET,"): no statement says whether `set_timezone` takes such a string (the pinned tree does,
/// leniently); the checks only demand that a refusal changes nothing and that an acceptance configures a
/// real zone of the table under its own offset
pub fn zone_with_trailer(data: &CfgData, tz: &str) -> bool {
    for (i, c) in tz.char_indices() {
        if c.is_ascii_alphanumeric() { continue; }
        return i > 0 && !matches!(c, '+' | '-' | ':' | '_') && data.zones.contains_key(&tz[..i]);
    }
    false
}

pub struct World {
    pub calc: SmartCalc,
    pub sessions: BTreeMap<u8, Session>,
    pub cfg: CfgModel,
    pub salt: u64,
    pub log: CallLog,
    pub allow_unwind: bool,
    pub explain: bool,
    /// yield-point control shared with the callbacks registered on `calc`
    pub nest: NestCtl,
    /// the values (asts) of each session's last result, for `format_result`
    pub last_asts: BTreeMap<u8, Vec<Rc<smartcalc::SmartCalcAstType>>>,
    linewise_acc: bool,
}

/// one inner step of a nested event, as handed to `World::run_nested`
pub struct InnerCall {
    pub idx: usize,
    pub at_call: u32,
    pub actor: u8,
    pub session: bool,
    pub lang: String,
    pub text: String,
    pub t: i128,
}

pub struct InnerResult {
    pub idx: usize,
    /// callback invocation of the outer evaluation the step ran in; None = the invocation never
    /// happened and the step ran right after the outer call
    pub fired_in_call: Option<u32>,
    pub obs: CallObs,
    pub reads: u32,
}

impl World {
    /// `t0`: instant the clock is frozen at while the calculator is built
    pub fn new(data: &CfgData, salt: u64, t0: i128) -> World {
        clock::freeze(t0);
        World { calc: SmartCalc::default(), sessions: BTreeMap::new(), cfg: CfgModel::new(data), salt, log: Rc::new(RefCell::new(Vec::new())), allow_unwind: true, explain: false, nest: Rc::new(RefCell::new(NestState::default())), last_asts: BTreeMap::new(), linewise_acc: false }
    }

    pub fn render(&self, text: &TextSpec) -> Vec<String> {
        text.lines.iter().map(|l| match l { Line::Raw(s) => s.clone(), Line::Sem(st) => render_stmt(st, &self.cfg.fmt) }).collect()
    }

    pub fn execute(&self, lang: &str, text: &str, clk: &ClockScript) -> (CallObs, ClockLog) {
        let calc = &self.calc;
        clock::with_clock(clk, self.explain, || observe_call(|| project_result!(calc.execute(lang, text))))
    }

    pub fn session_new(&mut self, client: u8, lang: &str) {
        let mut s = Session::new();
        s.set_language(lang.to_string());
        self.sessions.insert(client, s);
    }

    /// session.set_text(text); execute_session
    pub fn session_text(&mut self, client: u8, text: &str, clk: &ClockScript) -> (CallObs, ClockLog) {
        let explain = self.explain;
        let calc = &self.calc;
        let session = match self.sessions.get_mut(&client) { Some(s) => s, None => panic!("harness: client {} has no session", client) };
        session.set_text(text.to_string());
        let session = &*session;
        let stash: RefCell<Vec<Rc<smartcalc::SmartCalcAstType>>> = RefCell::new(Vec::new());
        let r = clock::with_clock(clk, explain, || observe_call(|| {
            let res = calc.execute_session(session);
            for l in res.lines.iter().flatten() { if let Ok(v) = &l.result { stash.borrow_mut().push(v.ast.clone()); } }
            project_result!(res)
        }));
        if self.linewise_acc { self.last_asts.entry(client).or_default().extend(stash.into_inner()); } else { self.last_asts.insert(client, stash.into_inner()); }
        r
    }

    /// calc.format_result(&session, ast) for every value of the session's last result
    pub fn session_format(&self, client: u8, clk: &ClockScript) -> Result<Vec<String>, PanicInfo> {
        let calc = &self.calc;
        let session = match self.sessions.get(&client) { Some(s) => s, None => return Ok(vec![]) };
        let asts = self.last_asts.get(&client).cloned().unwrap_or_default();
        let (r, _) = clock::with_clock(clk, false, || crate::obs::guarded(|| std::panic::catch_unwind(std::panic::AssertUnwindSafe(|| asts.iter().map(|a| calc.format_result(session, a.clone())).collect::<Vec<String>>()))));
        match r {
            Ok(v) => Ok(v),
            Err(_) => { let _ = clock::drain_after_unwind(); Err(crate::obs::take_last_panic().unwrap_or(PanicInfo { msg: "?".into(), loc: "?".into(), func: "?".into() })) }
        }
    }

    pub fn session_set_language(&mut self, client: u8, lang: &str) {
        if let Some(s) = self.sessions.get_mut(&client) { s.set_language(lang.to_string()); }
    }

    /// execute_session once more, without a new text
    pub fn session_rerun(&mut self, client: u8, clk: &ClockScript) -> (CallObs, ClockLog) {
        let explain = self.explain;
        let calc = &self.calc;
        let session = match self.sessions.get(&client) { Some(s) => s, None => panic!("harness: client {} has no session", client) };
        clock::with_clock(clk, explain, || observe_call(|| project_result!(calc.execute_session(session))))
    }

    /// the same text fed one line at a time (each piece its own set_text +
    /// execute_session); slots concatenated
    pub fn session_text_linewise(&mut self, client: u8, text: &str, clk: &ClockScript) -> CallObs {
        let mut all: Vec<LineObs> = Vec::new();
        let mut status = true;
        self.last_asts.insert(client, Vec::new());
        self.linewise_acc = true;
        for piece in split_lines(text) {
            let (o, _) = self.session_text(client, &piece, clk);
            match o {
                CallObs::Returned { status: st, lines } => { status &= st; all.extend(lines); }
                CallObs::Unwound(p) => { self.linewise_acc = false; return CallObs::Unwound(p); }
            }
        }
        self.linewise_acc = false;
        CallObs::Returned { status, lines: all }
    }

    /// One outer call (one-shot `execute(lang, text)` if `outer_session` is None, else set_text +
    /// execute_session on that client's session) during which the inner steps run inside the
    /// callback invocations they are scheduled at, on this same calculator.  Sessions of all
    /// participants must exist.  Inner steps whose invocation never happens run right after the
    /// outer call, in order.
    pub fn run_nested(&mut self, outer_session: Option<u8>, lang: &str, text: &str, clk: &ClockScript, inner: Vec<InnerCall>) -> (CallObs, ClockLog, Vec<InnerResult>) {
        // all mutation first: texts of the outer and the inner sessions
        if let Some(c) = outer_session { self.sessions.get_mut(&c).expect("harness: outer session missing").set_text(text.to_string()); }
        for ic in inner.iter().filter(|i| i.session) { self.sessions.get_mut(&ic.actor).expect("harness: inner session missing").set_text(ic.text.clone()); }
        // from here on only shared borrows
        let explain = self.explain;
        let calc: &SmartCalc = &self.calc;
        let sessions = &self.sessions;
        {
            let mut st = self.nest.borrow_mut();
            st.calc = Some(calc as *const SmartCalc);
            st.depth = 0;
            st.calls = 0;
            st.done.clear();
            st.pending = inner.iter().map(|ic| PendingInner { idx: ic.idx, at_call: ic.at_call, lang: ic.lang.clone(), text: ic.text.clone(), session: if ic.session { Some(&sessions[&ic.actor] as *const Session) } else { None }, t: ic.t }).collect();
        }
        let (o, log) = match outer_session {
            None => clock::with_clock(clk, explain, || observe_call(|| project_result!(calc.execute(lang, text)))),
            Some(c) => { let s = &sessions[&c]; clock::with_clock(clk, explain, || observe_call(|| project_result!(calc.execute_session(s)))) }
        };
        let (left, done) = {
            let mut st = self.nest.borrow_mut();
            st.calc = None;
            st.depth = 0;
            (std::mem::take(&mut st.pending), std::mem::take(&mut st.done))
        };
        let mut results: Vec<InnerResult> = done.into_iter().map(|(idx, call, obs, reads)| InnerResult { idx, fired_in_call: Some(call), obs, reads }).collect();
        for p in left {
            let (obs, l2) = clock::with_clock(&ClockScript::Frozen { t: p.t }, explain, || observe_call(|| match p.session {
                None => project_result!(calc.execute(&p.lang[..], &p.text[..])),
                // SAFETY: pointer into `sessions`, which is still borrowed here
                Some(s) => { let s: &Session = unsafe { &*s }; project_result!(calc.execute_session(s)) }
            }));
            results.push(InnerResult { idx: p.idx, fired_in_call: None, obs, reads: l2.values.len() as u32 });
        }
        // leave the simulated clock frozen at the outer event's base instant
        clock::freeze(clk.base());
        results.sort_by_key(|r| r.idx);
        (o, log, results)
    }

    pub fn admin(&mut self, op: &AdminOp, clk: &ClockScript) -> AdminObs {
        let salt = self.salt;
        let nest = self.nest.clone();
        let log = self.log.clone();
        let allow_unwind = self.allow_unwind;
        let calc = &mut self.calc;
        let r = clock::with_clock(clk, false, || {
            crate::obs::guarded(|| std::panic::catch_unwind(std::panic::AssertUnwindSafe(|| match op {
                AdminOp::UpdateCurrency { name, rate } => AdminObs::Bool(calc.update_currency(name, *rate)),
                AdminOp::SetTimezone { tz } => AdminObs::Res(calc.set_timezone(tz.clone())),
                AdminOp::SetDecimalSep { s } => { calc.set_decimal_seperator(s.clone()); AdminObs::Unit }
                AdminOp::SetThousandSep { s } => { calc.set_thousand_separator(s.clone()); AdminObs::Unit }
                AdminOp::SetNumberCfg { digits, remove_zero, rounding } => { calc.set_number_configuration(*digits, *remove_zero, *rounding); AdminObs::Unit }
                AdminOp::SetPercentCfg { digits, remove_zero, rounding } => { calc.set_percentage_configuration(*digits, *remove_zero, *rounding); AdminObs::Unit }
                AdminOp::SetMoneyCfg { remove_zero, rounding } => { calc.set_money_configuration(*remove_zero, *rounding); AdminObs::Unit }
                AdminOp::LoadTable { usd } => {
                    let path = format!("{}/src/json/config.json", crate::cfgdata::repo_path());
                    let txt = std::fs::read_to_string(&path).expect("config.json");
                    let mut v: serde_json::Value = serde_json::from_str(&txt).expect("config.json parses");
                    v["currency_rates"]["usd"] = serde_json::json!(*usd);
                    *calc = SmartCalc::load_from_json(&v.to_string());
                    calc.set_date_rule("en", vec!["{MONTH:month} {NUMBER:day}, {NUMBER:year}".to_string(), "{MONTH:month} {NUMBER:day} {NUMBER:year}".to_string(), "{NUMBER:day}/{NUMBER:month}/{NUMBER:year}".to_string(), "{NUMBER:day} {MONTH:month} {NUMBER:year}".to_string(), "{NUMBER:day} {MONTH:month}".to_string()]);
                    calc.set_date_rule("tr", vec!["{NUMBER:day}/{NUMBER:month}/{NUMBER:year}".to_string(), "{NUMBER:day} {MONTH:month} {NUMBER:year}".to_string(), "{NUMBER:day} {MONTH:month}".to_string()]);
                    AdminObs::Unit
                }
                AdminOp::SetDateRule { mdy } => {
                    let numeric = if *mdy { "{NUMBER:month}/{NUMBER:day}/{NUMBER:year}" } else { "{NUMBER:day}/{NUMBER:month}/{NUMBER:year}" };
                    calc.set_date_rule("en", vec!["{MONTH:month} {NUMBER:day}, {NUMBER:year}".to_string(), "{MONTH:month} {NUMBER:day} {NUMBER:year}".to_string(), numeric.to_string(), "{NUMBER:day} {MONTH:month} {NUMBER:year}".to_string(), "{NUMBER:day} {MONTH:month}".to_string()]);
                    calc.set_date_rule("tr", vec![numeric.to_string(), "{NUMBER:day} {MONTH:month} {NUMBER:year}".to_string(), "{NUMBER:day} {MONTH:month}".to_string()]);
                    AdminObs::Unit
                }
                AdminOp::AddRule { lang, rule } => {
                    let r = Rc::new(SimRule { spec: rule.clone(), salt, log: log.clone(), allow_unwind, nest: nest.clone() });
                    AdminObs::Bool(calc.add_rule(lang.clone(), rule.patterns.clone(), r))
                }
                AdminOp::DeleteRule { lang, name } => AdminObs::Bool(calc.delete_rule(lang.clone(), name.clone())),
                AdminOp::AddType { name } => AdminObs::Bool(calc.add_dynamic_type(name.clone())),
                AdminOp::AddTypeItem(it) => AdminObs::Bool(calc.add_dynamic_type_item(it.family.clone(), it.index, it.format.clone(), it.parse.clone(), it.upgrade.clone(), it.downgrade.clone(), it.names.clone(), None, None, None)),
            })))
        });
        match r.0 {
            Ok(o) => o,
            Err(_) => {
                let _ = clock::drain_after_unwind();
                AdminObs::Unwound(crate::obs::take_last_panic().unwrap_or(PanicInfo { msg: "?".into(), loc: "?".into(), func: "?".into() }))
            }
        }
    }
}

pub fn slot_count(o: &CallObs) -> Option<usize> {
    o.lines().map(|l| l.len())
}

#[allow(dead_code)]
pub fn all_empty(o: &CallObs) -> bool {
    o.lines().map(|l| l.iter().all(|x| x.slot == Slot::Empty)).unwrap_or(false)
}
