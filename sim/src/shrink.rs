//! Trace minimisation (delta debugging on the explicit trace).  A candidate is
//! kept when executing it still yields a violation with the same class key.

use crate::checks::{Check, Env};
use crate::clock::{real_monotonic_s, ClockScript};
use crate::trace::{Line, Op, TextSpec, Trace};

fn still_fails(check: &dyn Check, t: &Trace, env: &Env, key: &str) -> bool {
    check.execute(t, env).violations.iter().any(|v| v.key == key)
}

fn text_of(op: &mut Op) -> Option<&mut TextSpec> {
    match op {
        Op::Execute { text, .. } | Op::SessionText { text } => Some(text),
        Op::Nested { outer, .. } => text_of(outer),
        _ => None,
    }
}

pub fn shrink(check: &dyn Check, trace: &Trace, env: &Env, key: &str, event: usize, budget_s: f64) -> Trace {
    let start = real_monotonic_s();
    let over = || real_monotonic_s() - start > budget_s;
    let mut best = trace.clone();
    // 1. cut everything after the violating event
    if event + 1 < best.events.len() {
        let mut c = best.clone();
        c.events.truncate(event + 1);
        if still_fails(check, &c, env, key) { best = c; }
    }
    // 2. most violations need one call: try "administrator events + last event", then the last event alone
    if best.events.len() > 1 {
        let last = best.events.len() - 1;
        let mut c = best.clone();
        c.events = best.events.iter().enumerate().filter(|(i, e)| *i == last || e.actor == crate::trace::ADMIN).map(|(_, e)| e.clone()).collect();
        if c.events.len() < best.events.len() && still_fails(check, &c, env, key) { best = c; }
        let mut c = best.clone();
        c.events = vec![best.events[best.events.len() - 1].clone()];
        if c.events.len() < best.events.len() && still_fails(check, &c, env, key) { best = c; }
    }
    // 2b. lines of the last event first (chunks, then single lines): the text is usually the bulk of the cost
    shrink_lines(check, &mut best, env, key, &over, true);
    // 2c. remove chunks of events (ddmin style), never the last one
    let mut chunk = (best.events.len() / 2).max(1);
    while chunk >= 1 && !over() && best.events.len() > 1 {
        let mut i = 0;
        let mut progress = false;
        while i + 1 < best.events.len() && !over() {
            let end = (i + chunk).min(best.events.len() - 1);
            if end <= i { break; }
            let mut c = best.clone();
            c.events.drain(i..end);
            if still_fails(check, &c, env, key) { best = c; progress = true; } else { i += chunk; }
        }
        if chunk == 1 && !progress { break; }
        if !progress { chunk /= 2; }
    }
    // 3. remove lines inside all texts
    shrink_lines(check, &mut best, env, key, &over, false);
    // 3b. nested events: drop inner steps, then the nesting itself
    for ei in 0..best.events.len() {
        if over() { break; }
        while let Op::Nested { inner, .. } = &best.events[ei].op {
            let n = inner.len();
            let mut removed = false;
            for k in 0..n {
                let mut c = best.clone();
                if let Op::Nested { inner, .. } = &mut c.events[ei].op { inner.remove(k); }
                if still_fails(check, &c, env, key) { best = c; removed = true; break; }
            }
            if !removed || over() { break; }
        }
        if let Op::Nested { outer, inner } = &best.events[ei].op {
            if inner.is_empty() {
                let mut c = best.clone();
                c.events[ei].op = (**outer).clone();
                if still_fails(check, &c, env, key) { best = c; }
            } else {
                // lines of the inner texts
                let n_inner = inner.len();
                for k in 0..n_inner {
                    loop {
                        if over() { break; }
                        let len = if let Op::Nested { inner, .. } = &best.events[ei].op { inner[k].text.lines.len() } else { 0 };
                        if len <= 1 { break; }
                        let mut progress = false;
                        for li in 0..len {
                            let mut c = best.clone();
                            if let Op::Nested { inner, .. } = &mut c.events[ei].op { inner[k].text.remove_line(li); }
                            if still_fails(check, &c, env, key) { best = c; progress = true; break; }
                        }
                        if !progress { break; }
                    }
                }
            }
        }
    }
    // 4. freeze clocks
    for ei in 0..best.events.len() {
        if over() { break; }
        if !best.events[ei].clock.is_frozen() {
            let mut c = best.clone();
            c.events[ei].clock = ClockScript::Frozen { t: c.events[ei].clock.base() };
            if still_fails(check, &c, env, key) { best = c; }
        }
    }
    // 5. shorten raw lines (drop halves, then single characters for short lines)
    for ei in 0..best.events.len() {
        let n = match text_of(&mut best.events[ei].op) { Some(t) => t.lines.len(), None => 0 };
        for li in 0..n {
            loop {
                if over() { return best; }
                let cur = match text_of(&mut best.events[ei].op).and_then(|t| t.lines.get(li).cloned()) { Some(Line::Raw(s)) => s, _ => break };
                let chars: Vec<char> = cur.chars().collect();
                if chars.len() < 2 { break; }
                let mut improved = false;
                let mut cands: Vec<String> = vec![chars[..chars.len() / 2].iter().collect(), chars[chars.len() / 2..].iter().collect()];
                if chars.len() <= 40 {
                    for k in 0..chars.len() {
                        cands.push(chars[..k].iter().chain(chars[k + 1..].iter()).collect());
                    }
                }
                for cand in cands {
                    if over() { return best; }
                    let mut c = best.clone();
                    if let Some(t) = text_of(&mut c.events[ei].op) { t.lines[li] = Line::Raw(cand); }
                    if still_fails(check, &c, env, key) { best = c; improved = true; break; }
                }
                if !improved { break; }
            }
        }
    }
    best
}

fn shrink_lines(check: &dyn Check, best: &mut Trace, env: &Env, key: &str, over: &dyn Fn() -> bool, last_only: bool) {
    let n_events = best.events.len();
    let range: Vec<usize> = if last_only { vec![n_events - 1] } else { (0..n_events).collect() };
    for ei in range {
        let mut chunk = match text_of(&mut best.events[ei].op) { Some(t) => (t.lines.len() / 2).max(1), None => continue };
        loop {
            if over() { return; }
            let n = text_of(&mut best.events[ei].op).map(|t| t.lines.len()).unwrap_or(0);
            if n <= 1 { break; }
            let mut progress = false;
            let mut i = 0;
            while i < text_of(&mut best.events[ei].op).map(|t| t.lines.len()).unwrap_or(0) && !over() {
                let len = text_of(&mut best.events[ei].op).map(|t| t.lines.len()).unwrap_or(0);
                let end = (i + chunk).min(len);
                if end - i >= len { i += chunk; continue; }
                let mut c = best.clone();
                if let Some(t) = text_of(&mut c.events[ei].op) { for _ in i..end { t.remove_line(i); } }
                if still_fails(check, &c, env, key) { *best = c; progress = true; } else { i += chunk; }
            }
            if chunk == 1 && !progress { break; }
            if !progress { chunk = (chunk / 2).max(1); }
        }
        // trailing newline / CRLF simplification
        let mut c = best.clone();
        if let Some(t) = text_of(&mut c.events[ei].op) {
            if t.trailing_nl || t.crlf.iter().any(|x| *x) {
                t.trailing_nl = false;
                for x in t.crlf.iter_mut() { *x = false; }
                if still_fails(check, &c, env, key) { *best = c; }
            }
        }
    }
}
