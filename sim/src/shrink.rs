//! Trace minimisation (delta debugging on the explicit trace).  A candidate is
//! kept when executing it still yields a violation with the same class key.

use crate::checks::{Check, Env};
use crate::clock::{real_monotonic_s, ClockScript};
use crate::trace::{Line, Op, TextSpec, Trace};

fn still_fails(check: &dyn Check, t: &Trace, env: &Env, key: &str) -> bool {
    check.execute(t, env).violations.iter().any(|v| v.key == key)
}

fn text_of(op: &mut Op) -> Option<&mut TextSpec> {
    match op { Op::Execute { text, .. } | Op::SessionText { text } => Some(text), _ => None }
}

pub fn shrink(check: &dyn Check, trace: &Trace, env: &Env, key: &str, event: usize, budget_s: f64) -> Trace {
    let start = real_monotonic_s();
    let over = || real_monotonic_s() - start > budget_s;
    let mut best = trace.clone();
    // 1. cut everything after the violating event
    if event + 1 < best.events.len() {
        let mut c = best.clone();
        c.events.truncate(event + 1);
        if still_fails(check, &c, env, key) { best = c; }
    }
    // 2. remove chunks of events (ddmin style), never the last one
    let mut chunk = (best.events.len() / 2).max(1);
    while chunk >= 1 && !over() {
        let mut i = 0;
        let mut progress = false;
        while i + 1 < best.events.len() && !over() {
            let end = (i + chunk).min(best.events.len() - 1);
            if end <= i { break; }
            let mut c = best.clone();
            c.events.drain(i..end);
            if still_fails(check, &c, env, key) { best = c; progress = true; } else { i += chunk; }
        }
        if chunk == 1 && !progress { break; }
        if !progress { chunk /= 2; }
    }
    // 3. remove lines inside texts
    let mut ei = 0;
    while ei < best.events.len() && !over() {
        let n = match text_of(&mut best.events[ei].op) { Some(t) => t.lines.len(), None => 0 };
        let mut li = n;
        while li > 0 && !over() {
            li -= 1;
            let mut c = best.clone();
            if let Some(t) = text_of(&mut c.events[ei].op) {
                if t.lines.len() <= 1 { break; }
                t.remove_line(li);
            }
            if still_fails(check, &c, env, key) { best = c; }
        }
        // trailing newline / CRLF simplification
        let mut c = best.clone();
        if let Some(t) = text_of(&mut c.events[ei].op) {
            if t.trailing_nl || t.crlf.iter().any(|x| *x) {
                t.trailing_nl = false;
                for x in t.crlf.iter_mut() { *x = false; }
                if still_fails(check, &c, env, key) { best = c; }
            }
        }
        ei += 1;
    }
    // 4. freeze clocks
    for ei in 0..best.events.len() {
        if over() { break; }
        if !best.events[ei].clock.is_frozen() {
            let mut c = best.clone();
            c.events[ei].clock = ClockScript::Frozen { t: c.events[ei].clock.base() };
            if still_fails(check, &c, env, key) { best = c; }
        }
    }
    // 5. shorten raw lines (drop halves, then single characters for short lines)
    for ei in 0..best.events.len() {
        let n = match text_of(&mut best.events[ei].op) { Some(t) => t.lines.len(), None => 0 };
        for li in 0..n {
            loop {
                if over() { return best; }
                let cur = match text_of(&mut best.events[ei].op).and_then(|t| t.lines.get(li).cloned()) { Some(Line::Raw(s)) => s, _ => break };
                let chars: Vec<char> = cur.chars().collect();
                if chars.len() < 2 { break; }
                let mut improved = false;
                let mut cands: Vec<String> = vec![chars[..chars.len() / 2].iter().collect(), chars[chars.len() / 2..].iter().collect()];
                if chars.len() <= 40 {
                    for k in 0..chars.len() {
                        cands.push(chars[..k].iter().chain(chars[k + 1..].iter()).collect());
                    }
                }
                for cand in cands {
                    if over() { return best; }
                    let mut c = best.clone();
                    if let Some(t) = text_of(&mut c.events[ei].op) { t.lines[li] = Line::Raw(cand); }
                    if still_fails(check, &c, env, key) { best = c; improved = true; break; }
                }
                if !improved { break; }
            }
        }
    }
    best
}
