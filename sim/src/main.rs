//! Deterministic simulation harness for erhanbaris/smartcalc.
//!
//!   sim check  <ID> <quick|thorough>     driver: spawn workers, aggregate, evidence, replays
//!   sim worker <ID> <tier> <base> <total> <zone> <slot> <nslots> [indices]
//!   sim replay <file> [--explain]        re-execute a replay file
//!   sim probe  <instant> <lang> <line>.. evaluate lines under a frozen simulated clock
//!   sim selftest                         seam and model self-tests

mod cfgdata;
mod checks;
mod clock;
mod driver;
mod gen;
mod lang;
mod model;
mod obs;
mod prng;
mod rules;
mod shrink;
mod trace;
mod world;

use smartcalc::SmartCalc;

fn main() {
    let args: Vec<String> = std::env::args().collect();
    obs::install_null_logger();
    obs::install_panic_hook();
    let code = match args.get(1).map(|s| s.as_str()) {
        Some("probe") => { probe(&args[2..]); 0 }
        Some("worker") => driver::worker_main(&args[2..]),
        Some("check") => driver::check_main(&args[2..]),
        Some("replay") => driver::replay_main(&args[2..]),
        Some("selftest") => driver::selftest_main(),
        Some("gen") => driver::gen_main(&args[2..]),
        Some("exec-trace") => driver::exec_trace_main(&args[2..]),
        Some("list") => { for id in checks::ALL { println!("{}", id); } 0 }
        _ => { eprintln!("usage: sim check|worker|replay|probe|selftest ..."); 2 }
    };
    std::process::exit(code);
}

/// sim probe 2026-03-08T12:00:00 en "02:30 EST" ...   (lines are one text, joined with \n)
fn probe(args: &[String]) {
    let t = parse_instant(&args[0]);
    let lang = args[1].clone();
    let text = args[2..].join("\n");
    clock::freeze(t);
    let mut calc = SmartCalc::default();
    if let Ok(tz) = std::env::var("PROBE_ZONE") { println!("set_timezone: {:?}", calc.set_timezone(tz)); }
    if let Ok(d) = std::env::var("PROBE_DEC") { calc.set_decimal_seperator(d); }
    if let Ok(d) = std::env::var("PROBE_THOU") { calc.set_thousand_separator(d); }
    let script = clock::ClockScript::Frozen { t };
    let (o, log) = clock::with_clock(&script, true, || obs::observe_call(|| project_result!(calc.execute(&lang[..], &text[..]))));
    match &o {
        obs::CallObs::Returned { status, lines } => {
            println!("status={}", status);
            for l in lines { println!("  {}", l.slot.short()); }
        }
        _ => println!("{}", o.short()),
    }
    println!("clock reads: {:?}", log.sites);
}

pub fn parse_instant(s: &str) -> i128 {
    let (d, t) = s.split_once('T').unwrap_or((s, "00:00:00"));
    let dp: Vec<i64> = d.split('-').map(|x| x.parse().unwrap()).collect();
    let tp: Vec<u32> = t.split(':').map(|x| x.parse().unwrap()).collect();
    clock::instant(dp[0], dp[1] as u32, dp[2] as u32, tp[0], tp[1], *tp.get(2).unwrap_or(&0))
}
