//! A small structured language for calculator lines whose meaning the listed
//! properties define.  Generators produce `Stmt`s; `render` turns them into
//! the text handed to smartcalc (under the separator configuration that is
//! current at that point of the simulation); `model::eval` computes what the
//! property statements say the line means.

use serde::{Deserialize, Serialize};

#[derive(Debug, Clone, PartialEq, Serialize, Deserialize)]
pub struct Fmt {
    pub dec: String,
    pub thou: String,
    /// the numeric date spelling installed through set_date_rule is month/day/year (default: day/month/year)
    #[serde(default)]
    pub mdy: bool,
}

impl Default for Fmt {
    fn default() -> Fmt { Fmt { dec: ",".into(), thou: ".".into(), mdy: false } }
}

/// decimal literal: [-]int[<dec>frac][suffix]
#[derive(Debug, Clone, PartialEq, Serialize, Deserialize)]
pub struct NumLit {
    pub neg: bool,
    pub int: u64,
    /// fraction digits (may be empty)
    pub frac: String,
    /// magnitude suffix k, M, G, T ...
    pub suffix: Option<char>,
    /// write the integer part with thousands separators
    pub grouped: bool,
}

impl NumLit {
    pub fn int(v: i64) -> NumLit {
        NumLit { neg: v < 0, int: v.unsigned_abs(), frac: String::new(), suffix: None, grouped: false }
    }
    pub fn dec(int: u64, frac: &str) -> NumLit {
        NumLit { neg: false, int, frac: frac.to_string(), suffix: None, grouped: false }
    }
    pub fn mult(&self) -> f64 {
        match self.suffix {
            Some('k') | Some('K') => 1e3,
            Some('M') => 1e6,
            Some('G') => 1e9,
            Some('T') => 1e12,
            Some('P') => 1e15,
            Some('Z') => 1e18,
            Some('Y') => 1e21,
            _ => 1.0,
        }
    }
    /// value exactly as a correct reader obtains it: parse the canonical
    /// decimal text, then scale
    pub fn value(&self) -> f64 {
        let txt = if self.frac.is_empty() { format!("{}{}", if self.neg { "-" } else { "" }, self.int) } else { format!("{}{}.{}", if self.neg { "-" } else { "" }, self.int, self.frac) };
        txt.parse::<f64>().unwrap() * self.mult()
    }
    pub fn render(&self, f: &Fmt) -> String {
        let mut s = String::new();
        if self.neg { s.push('-'); }
        let digits = self.int.to_string();
        if self.grouped && !f.thou.is_empty() && f.thou != f.dec {
            let n = digits.len();
            for (i, c) in digits.chars().enumerate() {
                if i > 0 && (n - i) % 3 == 0 { s.push_str(&f.thou); }
                s.push(c);
            }
        } else {
            s.push_str(&digits);
        }
        if !self.frac.is_empty() {
            s.push_str(&f.dec);
            s.push_str(&self.frac);
        }
        if let Some(c) = self.suffix { s.push(c); }
        s
    }
    pub fn is_integral(&self) -> bool { self.frac.chars().all(|c| c == '0') }
}

#[derive(Debug, Clone, PartialEq, Serialize, Deserialize)]
pub enum CurForm {
    /// "$10"
    SymbolBefore(String),
    /// "10 usd", "10usd", "10 dollar" (text as written, any case)
    WordAfter { word: String, space: bool },
    /// "10$", "10 $"
    SymbolAfter { sym: String, space: bool },
}

#[derive(Debug, Clone, PartialEq, Serialize, Deserialize)]
pub struct MoneyLit {
    pub n: NumLit,
    /// upper-case ISO code this spelling denotes
    pub code: String,
    pub form: CurForm,
}

#[derive(Debug, Clone, PartialEq, Serialize, Deserialize)]
pub enum DateForm {
    /// d/m/y
    Slash,
    /// "d Month y"
    DMonthY,
    /// "Month d, y" / "Month d y"
    MonthDY { comma: bool },
    /// "d Month" (current year)
    DMonth,
}

#[derive(Debug, Clone, PartialEq, Serialize, Deserialize)]
pub struct DateLit {
    pub y: i64,
    pub m: u32,
    pub d: u32,
    pub form: DateForm,
    /// month word as written (any case); unused for Slash
    pub month_word: String,
}

#[derive(Debug, Clone, PartialEq, Serialize, Deserialize)]
pub struct TimeLit {
    pub h: u32,
    pub m: u32,
    pub s: Option<u32>,
    /// "am"/"pm" as written, with or without a blank before it
    pub meridiem: Option<(String, bool)>,
    /// without minutes: "5 pm"
    pub hour_only: bool,
    /// zone text as written ("EST", "gmt+3", "GMT-03:30"), and its offset in minutes
    pub zone: Option<(String, i32)>,
}

impl TimeLit {
    /// wall-clock seconds of day the literal denotes
    pub fn wall_secs(&self) -> i64 {
        let mut h = self.h;
        if let Some((mer, _)) = &self.meridiem {
            if mer.to_lowercase() == "pm" && h < 12 { h += 12; }
        }
        h as i64 * 3600 + self.m as i64 * 60 + self.s.unwrap_or(0) as i64
    }
}

#[derive(Debug, Clone, PartialEq, Serialize, Deserialize)]
pub enum Lit {
    Num(NumLit),
    /// "5%" (prefix=false) or "%5"
    Pct { n: NumLit, prefix: bool },
    Money(MoneyLit),
    /// "1 hour 30 minutes": (count, unit word as written, unit length in seconds)
    Dur(Vec<(i64, String, i64)>),
    Date(DateLit),
    /// yesterday(-1) / today(0) / tomorrow(1), word as written
    RelDay { k: i64, word: String },
    Time(TimeLit),
    /// "3 km": amount, unit word as written, (family, index)
    Unit { n: NumLit, word: String, family: String, index: usize },
}

#[derive(Debug, Clone, PartialEq, Serialize, Deserialize)]
pub struct NameUse {
    /// words as written (any case)
    pub words: Vec<String>,
}

impl NameUse {
    pub fn key(&self) -> String { self.words.iter().map(|w| w.to_lowercase()).collect::<Vec<_>>().join(" ") }
    pub fn render(&self) -> String { self.words.join(" ") }
}

#[derive(Debug, Clone, PartialEq, Serialize, Deserialize)]
pub enum Expr {
    Lit(Lit),
    Var(NameUse),
    /// sign prefix directly in front of the operand: "-x"
    Neg(Box<Expr>),
    Bin { l: Box<Expr>, op: char, r: Box<Expr>, tight: bool },
    Paren(Box<Expr>),
    /// "<money> [in|into|as|to] <currency word>"
    ToCur { e: Box<Expr>, conn: Option<String>, word: String, code: String },
    /// "<time> in|into|as|to <ZONE>"
    ToZone { e: Box<Expr>, conn: String, zone: String, off: i32 },
    /// "<A> to <B>": absolute difference of two dates or two times
    Between { a: Box<Expr>, b: Box<Expr> },
    /// "<date|time|datetime> [as|to|in|into] unix|unixtime|unixtimestamp"
    AsUnix { e: Box<Expr>, conn: Option<String>, word: String },
    /// "<number> [to|as|in|into] date" or "<number> [to] <ZONE>"
    FromUnix { e: Box<Expr>, conn: Option<String>, zone: Option<(String, i32)> },
    /// "<date> at <time or hour>"
    At { d: Box<Expr>, t: Box<Expr> },
    /// "<number> <unit word>" where the number is an expression (a name holding a number): that quantity
    UnitOf { e: Box<Expr>, word: String, family: String, index: usize },
}

#[derive(Debug, Clone, PartialEq, Serialize, Deserialize)]
pub enum Stmt {
    Assign { name: NameUse, e: Expr },
    Eval(Expr),
    /// a line that must fail to evaluate (syntax or type error), without '='
    Fail { text: String },
    /// an assignment whose right-hand side must fail
    FailAssign { name: NameUse, rhs: String },
}

pub fn render_lit(l: &Lit, f: &Fmt) -> String {
    match l {
        Lit::Num(n) => n.render(f),
        Lit::Pct { n, prefix } => if *prefix { format!("%{}", n.render(f)) } else { format!("{}%", n.render(f)) },
        Lit::Money(m) => match &m.form {
            CurForm::SymbolBefore(sym) => format!("{}{}", sym, m.n.render(f)),
            CurForm::WordAfter { word, space } => {
                // a magnitude suffix needs the blank ("10k usd")
                let sp = *space || m.n.suffix.is_some();
                format!("{}{}{}", m.n.render(f), if sp { " " } else { "" }, word)
            }
            CurForm::SymbolAfter { sym, space } => {
                let sp = *space || m.n.suffix.is_some();
                format!("{}{}{}", m.n.render(f), if sp { " " } else { "" }, sym)
            }
        },
        Lit::Dur(parts) => parts.iter().map(|(n, w, _)| format!("{} {}", n, w)).collect::<Vec<_>>().join(" "),
        Lit::Date(d) => match &d.form {
            DateForm::Slash => if f.mdy { format!("{}/{}/{}", d.m, d.d, d.y) } else { format!("{}/{}/{}", d.d, d.m, d.y) },
            DateForm::DMonthY => format!("{} {} {}", d.d, d.month_word, d.y),
            DateForm::MonthDY { comma } => format!("{} {}{} {}", d.month_word, d.d, if *comma { "," } else { "" }, d.y),
            DateForm::DMonth => format!("{} {}", d.d, d.month_word),
        },
        Lit::RelDay { word, .. } => word.clone(),
        Lit::Time(t) => {
            let mut s = String::new();
            if t.hour_only {
                s.push_str(&format!("{}", t.h));
            } else {
                s.push_str(&format!("{}:{:02}", t.h, t.m));
                if let Some(sec) = t.s { s.push_str(&format!(":{:02}", sec)); }
            }
            if let Some((mer, space)) = &t.meridiem {
                if *space { s.push(' '); }
                s.push_str(mer);
            }
            if let Some((z, _)) = &t.zone {
                s.push(' ');
                s.push_str(z);
            }
            s
        }
        Lit::Unit { n, word, .. } => format!("{} {}", n.render(f), word),
    }
}

pub fn render_expr(e: &Expr, f: &Fmt) -> String {
    match e {
        Expr::Lit(l) => render_lit(l, f),
        Expr::Var(n) => n.render(),
        Expr::Neg(x) => format!("-{}", render_expr(x, f)),
        Expr::Bin { l, op, r, tight } => {
            let ls = render_expr(l, f);
            let rs = render_expr(r, f);
            // tight spelling only between alphanumerics: "10$+5" would read "$+5" as a money literal
            let ok = ls.chars().last().map(|c| c.is_alphanumeric()).unwrap_or(false) && rs.chars().next().map(|c| c.is_alphanumeric()).unwrap_or(false);
            if *tight && ok { format!("{}{}{}", ls, op, rs) } else { format!("{} {} {}", ls, op, rs) }
        }
        Expr::Paren(x) => format!("({})", render_expr(x, f)),
        Expr::ToCur { e, conn, word, .. } => match conn {
            Some(c) => format!("{} {} {}", render_expr(e, f), c, word),
            None => format!("{} {}", render_expr(e, f), word),
        },
        Expr::ToZone { e, conn, zone, .. } => format!("{} {} {}", render_expr(e, f), conn, zone),
        Expr::Between { a, b } => format!("{} to {}", render_expr(a, f), render_expr(b, f)),
        Expr::AsUnix { e, conn, word } => match conn {
            Some(c) => format!("{} {} {}", render_expr(e, f), c, word),
            None => format!("{} {}", render_expr(e, f), word),
        },
        Expr::FromUnix { e, conn, zone } => {
            let target = match zone { Some((z, _)) => z.clone(), None => "date".to_string() };
            match conn {
                Some(c) => format!("{} {} {}", render_expr(e, f), c, target),
                None => format!("{} {}", render_expr(e, f), target),
            }
        }
        Expr::At { d, t } => format!("{} at {}", render_expr(d, f), render_expr(t, f)),
        Expr::UnitOf { e, word, .. } => format!("{} {}", render_expr(e, f), word),
    }
}

pub fn render_stmt(s: &Stmt, f: &Fmt) -> String {
    match s {
        Stmt::Assign { name, e } => format!("{} = {}", name.render(), render_expr(e, f)),
        Stmt::Eval(e) => render_expr(e, f),
        Stmt::Fail { text } => text.clone(),
        Stmt::FailAssign { name, rhs } => format!("{} = {}", name.render(), rhs),
    }
}
