//! Small executable reference models: what the property statements say a
//! structured line (lang::Expr) means.  Environment (names -> values), rate
//! table, proleptic-Gregorian calendar, wall time modulo 24 h with zone
//! offsets, epoch seconds.  The models judge only shapes the statements
//! define; everything else is `Unjudged`.

use std::collections::BTreeMap;

use crate::cfgdata::CfgData;
use crate::clock::{civil_from_days, days_from_civil, days_in_month};
use crate::lang::{Expr, Lit, Stmt};
use crate::obs::Val;

#[derive(Debug, Clone, PartialEq)]
pub enum Cal {
    /// a whole number of days (from day/week literals only)
    Days(i64),
    /// a whole number of calendar months (from month/year literals only)
    Months(i64),
}

#[derive(Debug, Clone, PartialEq)]
pub enum MVal {
    Num(f64),
    Pct(f64),
    Money(f64, String),
    Dur { secs: i64, cal: Option<Cal> },
    /// days since 1970-01-01
    Date(i64),
    /// wall-clock seconds of day shown in the zone (name, offset minutes)
    /// `day`: the UTC day the time was anchored on when it was read (i64::MIN = not known any more, e.g. after
    /// adding a duration); only times anchored on the same day have a defined difference
    Time { wall: i64, zone: String, off: i32, day: i64 },
    DateTime { utc: i64, zone: String, off: i32 },
    Unit(f64, String, usize),
    /// a unix timestamp (printed with every digit)
    Unix(i64),
}

impl MVal {
    pub fn kind(&self) -> &'static str {
        match self {
            MVal::Num(_) => "Num", MVal::Pct(_) => "Pct", MVal::Money(..) => "Money", MVal::Dur { .. } => "Dur", MVal::Date(_) => "Date",
            MVal::Time { .. } => "Time", MVal::DateTime { .. } => "DateTime", MVal::Unit(..) => "Unit", MVal::Unix(_) => "Unix",
        }
    }
}

#[derive(Debug, Clone, PartialEq)]
pub enum R {
    V(MVal),
    /// any of these is acceptable (the statement leaves a choice open)
    AnyOf(Vec<MVal>),
    /// the line must fail to evaluate
    Fail,
    /// whatever the result is, it must not be a value of this kind
    NotA(&'static str),
    Unjudged(&'static str),
}

pub struct Ctx<'a> {
    pub env: &'a BTreeMap<String, MVal>,
    pub rates: &'a BTreeMap<String, f64>,
    /// UTC day number of the simulated instant
    pub today: i64,
    /// the simulated instant, seconds since the epoch
    pub now: i64,
    /// default zone (name, offset minutes)
    pub zone: (String, i32),
    pub data: &'a CfgData,
}

thread_local! {
    /// largest magnitude among the operands of the line being judged (in the units of the result):
    /// a difference of two nearly equal amounts is only as exact as its operands
    pub static OPERAND_SCALE: std::cell::Cell<f64> = const { std::cell::Cell::new(0.0) };
}

pub fn close(a: f64, b: f64) -> bool {
    if a == b { return true; }
    if !a.is_finite() || !b.is_finite() { return false; }
    let scale = OPERAND_SCALE.with(|s| s.get());
    (a - b).abs() <= 1e-9 * a.abs().max(b.abs()).max(scale) + 1e-9
}

/// largest magnitude of a number / amount among the operands of an expression, amounts of money
/// expressed in every currency that occurs (so that it bounds the operands in the result's unit)
pub fn operand_scale(e: &Expr, c: &Ctx) -> f64 {
    fn walk(e: &Expr, c: &Ctx, vals: &mut Vec<(f64, Option<String>)>) {
        match e {
            Expr::Lit(_) | Expr::Var(_) => match eval(e, c) {
                R::V(MVal::Num(v)) | R::V(MVal::Pct(v)) => vals.push((v.abs(), None)),
                R::V(MVal::Money(v, code)) => vals.push((v.abs(), Some(code))),
                R::V(MVal::Unit(v, ..)) => vals.push((v.abs(), None)),
                _ => {}
            },
            Expr::Neg(x) | Expr::Paren(x) => walk(x, c, vals),
            Expr::Bin { l, r, .. } => { walk(l, c, vals); walk(r, c, vals); }
            Expr::ToCur { e, code, .. } => { walk(e, c, vals); vals.push((0.0, Some(code.clone()))); }
            Expr::ToZone { e, .. } | Expr::AsUnix { e, .. } | Expr::FromUnix { e, .. } => walk(e, c, vals),
            Expr::Between { a, b } => { walk(a, c, vals); walk(b, c, vals); }
            Expr::At { d, t } => { walk(d, c, vals); walk(t, c, vals); }
            Expr::UnitOf { e, .. } => walk(e, c, vals),
        }
    }
    let mut vals = Vec::new();
    walk(e, c, &mut vals);
    let codes: Vec<String> = vals.iter().filter_map(|(_, c)| c.clone()).collect();
    let mut m = 0.0f64;
    for (v, code) in vals.iter() {
        m = m.max(*v);
        if let Some(from) = code {
            for to in codes.iter() {
                if let (Some(rf), Some(rt)) = (c.rates.get(from), c.rates.get(to)) { if *rf > 0.0 { m = m.max(v * rt / rf); } }
            }
        }
    }
    m
}

fn div(a: f64, b: f64) -> f64 {
    let c = a / b;
    if c.is_infinite() || c.is_nan() { 0.0 } else { c }
}

fn rem(a: i64) -> i64 { a.rem_euclid(86400) }

/// shift a date by n calendar months keeping the day of the month; None when that day does not exist
pub fn shift_months(days: i64, n: i64) -> Option<i64> {
    let (y, m, d) = civil_from_days(days);
    let total = y * 12 + (m as i64 - 1) + n;
    let ny = total.div_euclid(12);
    let nm = (total.rem_euclid(12) + 1) as u32;
    if !(1..=9999).contains(&ny) { return None; }
    if d > days_in_month(ny, nm) { return None; }
    Some(days_from_civil(ny, nm, d))
}

fn dur_lit(parts: &[(i64, String, i64)]) -> MVal {
    let mut secs: i64 = 0;
    let mut days_only = true;
    let mut months_only = true;
    let mut days = 0i64;
    let mut months = 0i64;
    for (n, _, len) in parts {
        match *len {
            l if l == 30 * 86400 => { secs += (365 * (n / 12) + 30 * (n % 12)) * 86400; months += n; days_only = false; }
            l if l == 365 * 86400 => { secs += 365 * 86400 * n; months += 12 * n; days_only = false; }
            l if l == 86400 || l == 7 * 86400 => { secs += l * n; days += (l / 86400) * n; months_only = false; }
            l => { secs += l * n; days_only = false; months_only = false; }
        }
    }
    let cal = if days_only { Some(Cal::Days(days)) } else if months_only { Some(Cal::Months(months)) } else { None };
    MVal::Dur { secs, cal }
}

fn lit(l: &Lit, c: &Ctx) -> R {
    match l {
        Lit::Num(n) => R::V(MVal::Num(n.value())),
        Lit::Pct { n, .. } => R::V(MVal::Pct(n.value())),
        Lit::Money(m) => R::V(MVal::Money(m.n.value(), m.code.clone())),
        Lit::Dur(parts) => R::V(dur_lit(parts)),
        Lit::Date(d) => {
            let y = if d.form == crate::lang::DateForm::DMonth { civil_from_days(c.today).0 } else { d.y };
            if d.m < 1 || d.m > 12 || d.d < 1 || d.d > days_in_month(y, d.m) || !(1..=9999).contains(&y) { return R::NotA("Date"); }
            R::V(MVal::Date(days_from_civil(y, d.m, d.d)))
        }
        Lit::RelDay { k, .. } => {
            // under a non-UTC default zone the statement does not say whether "today" is the UTC date or
            // the date in that zone; both are accepted (they differ for a few hours per day only)
            let local_today = (c.now + c.zone.1 as i64 * 60).div_euclid(86400);
            if local_today != c.today { R::AnyOf(vec![MVal::Date(c.today + k), MVal::Date(local_today + k)]) } else { R::V(MVal::Date(c.today + k)) }
        }
        Lit::Time(t) => {
            let (zone, off) = match &t.zone { Some((z, o)) => (z.to_uppercase(), *o), None => c.zone.clone() };
            R::V(MVal::Time { wall: t.wall_secs(), zone, off, day: c.today })
        }
        Lit::Unit { n, family, index, .. } => R::V(MVal::Unit(n.value(), family.clone(), *index)),
    }
}

pub fn eval(e: &Expr, c: &Ctx) -> R {
    match e {
        Expr::Lit(l) => lit(l, c),
        Expr::Var(n) => match c.env.get(&n.key()) { Some(v) => R::V(v.clone()), None => R::Unjudged("unbound-name") },
        Expr::Paren(x) => eval(x, c),
        Expr::Neg(x) => match eval(x, c) {
            // a sign prefix is defined for numbers (C02); no statement defines it for other kinds
            R::V(MVal::Num(v)) => R::V(MVal::Num(-v)),
            R::V(_) => R::Unjudged("negation-of-this-kind"),
            other => other,
        },
        Expr::Bin { l, op, r, .. } => {
            let a = match eval(l, c) { R::V(v) => v, R::AnyOf(_) => return R::Unjudged("choice-operand"), other => return other };
            let b = match eval(r, c) { R::V(v) => v, R::AnyOf(_) => return R::Unjudged("choice-operand"), other => return other };
            bin(a, *op, b, c)
        }
        Expr::ToCur { e, code, .. } => match eval(e, c) {
            R::V(MVal::Money(v, from)) => match (c.rates.get(&from), c.rates.get(code)) {
                (Some(rf), Some(rt)) if *rf > 0.0 && *rt > 0.0 => R::V(MVal::Money(v * rt / rf, code.clone())),
                _ => R::Unjudged("currency-without-rate"),
            },
            R::V(_) => R::Unjudged("to-currency-of-non-money"),
            other => other,
        },
        Expr::ToZone { e, zone, off, .. } => match eval(e, c) {
            R::V(MVal::Time { wall, off: o0, day, .. }) => R::V(MVal::Time { wall: rem(wall - o0 as i64 * 60 + *off as i64 * 60), zone: zone.to_uppercase(), off: *off, day: if wall - o0 as i64 * 60 + *off as i64 * 60 == rem(wall - o0 as i64 * 60 + *off as i64 * 60) { day } else { i64::MIN } }),
            R::V(_) => R::Unjudged("to-zone-of-non-time"),
            other => other,
        },
        Expr::Between { a, b } => {
            // two relative days: whatever "today" is, they are that many days apart
            if let (Expr::Lit(Lit::RelDay { k: k1, .. }), Expr::Lit(Lit::RelDay { k: k2, .. })) = (&**a, &**b) {
                return R::V(MVal::Dur { secs: (k1 - k2).abs() * 86400, cal: None });
            }
            let x = match eval(a, c) { R::V(v) => v, R::AnyOf(_) => return R::Unjudged("open-choice-operand"), other => return other };
            let y = match eval(b, c) { R::V(v) => v, R::AnyOf(_) => return R::Unjudged("open-choice-operand"), other => return other };
            match (x, y) {
                (MVal::Date(p), MVal::Date(q)) => R::V(MVal::Dur { secs: (p - q).abs() * 86400, cal: None }),
                // a clock time held in a variable was anchored on the day it was bound; what its difference to a
                // time of another day is, no statement says
                (MVal::Time { day: d1, .. }, MVal::Time { day: d2, .. }) if d1 != d2 || d1 == i64::MIN => R::Unjudged("difference-of-times-anchored-on-different-days"),
                (MVal::Time { wall: p, off: o1, .. }, MVal::Time { wall: q, off: o2, .. }) if o1 == o2 => R::V(MVal::Dur { secs: (p - q).abs(), cal: None }),
                (MVal::Time { .. }, MVal::Time { .. }) => R::Unjudged("time-difference-across-zones"),
                _ => R::Unjudged("between-of-these-kinds"),
            }
        }
        Expr::AsUnix { e, .. } => match eval(e, c) {
            // an operand with an open choice (relative day under a non-UTC default zone): any of the choices
            R::AnyOf(vs) => R::AnyOf(vs.into_iter().filter_map(|v| match v { MVal::Date(d) => Some(MVal::Unix(d * 86400)), MVal::DateTime { utc, .. } => Some(MVal::Unix(utc)), _ => None }).collect()),
            R::V(MVal::Date(d)) => R::V(MVal::Unix(d * 86400)),
            R::V(MVal::DateTime { utc, .. }) => R::V(MVal::Unix(utc)),
            R::V(MVal::Time { wall, off, .. }) => {
                // the instant of that wall time "today": the statement does not fix which calendar day a
                // bare time belongs to when the UTC date and the zone's local date differ
                // "today" is either the UTC date or the date in the time's own zone at the simulated instant
                let inst = wall - off as i64 * 60;
                let local_today = (c.now + off as i64 * 60).div_euclid(86400);
                let mut v = vec![MVal::Unix(c.today * 86400 + inst)];
                if local_today != c.today { v.push(MVal::Unix(local_today * 86400 + inst)); }
                R::AnyOf(v)
            }
            R::V(_) => R::Unjudged("as-unix-of-this-kind"),
            other => other,
        },
        Expr::FromUnix { e, zone, .. } => {
            let n = match eval(e, c) {
                R::V(MVal::Num(n)) if n.fract() == 0.0 => n as i64,
                R::V(MVal::Unix(n)) => n,
                R::V(_) => return R::Unjudged("from-unix-of-this-kind"),
                other => return other,
            };
            let (z, o) = match zone { Some((z, o)) => (z.to_uppercase(), *o), None => c.zone.clone() };
            R::V(MVal::DateTime { utc: n, zone: z, off: o })
        }
        Expr::UnitOf { e, family, index, .. } => match eval(e, c) {
            R::V(MVal::Num(v)) => R::V(MVal::Unit(v, family.clone(), *index)),
            R::V(_) => R::Unjudged("unit-of-non-number"),
            other => other,
        },
        Expr::At { d, t } => {
            let date = match eval(d, c) { R::V(MVal::Date(x)) => x, R::V(_) => return R::Unjudged("at-of-non-date"), R::AnyOf(_) => return R::Unjudged("open-choice-operand"), other => return other };
            match eval(t, c) {
                // a time without a zone is wall time in the default zone
                // ... as long as that wall time falls on the same UTC day (the calculator joins the date with the time's
                // UTC time of day, so across that boundary it shows the neighbouring day - no statement defines 'at')
                R::V(MVal::Time { wall, off, .. }) if off == c.zone.1 && !(0..86400).contains(&(wall - off as i64 * 60)) => R::Unjudged("at-time-wraps-the-utc-day"),
                R::V(MVal::Time { wall, off, .. }) if off == c.zone.1 => R::V(MVal::DateTime { utc: date * 86400 + wall - off as i64 * 60, zone: c.zone.0.clone(), off }),
                R::V(MVal::Time { .. }) => R::Unjudged("at-with-zoned-time"),
                // (the bare-hour form is judged under a UTC default zone only: no statement says which zone the hour is in)
                R::V(MVal::Num(_)) if c.zone.1 != 0 => R::Unjudged("at-hour-under-non-utc-default-zone"),
                R::V(MVal::Num(h)) if h.fract() == 0.0 && (0.0..24.0).contains(&h) => R::V(MVal::DateTime { utc: date * 86400 + h as i64 * 3600, zone: c.zone.0.clone(), off: 0 }),
                R::V(_) => R::Unjudged("at-with-this-kind"),
                other => other,
            }
        }
    }
}

fn bin(a: MVal, op: char, b: MVal, c: &Ctx) -> R {
    use MVal::*;
    match (a, b) {
        (Num(x), Num(y)) => R::V(Num(match op { '+' => x + y, '-' => x - y, '*' => x * y, '/' => div(x, y), _ => return R::Unjudged("operator") })),
        (Num(x), Pct(p)) => match op { '+' => R::V(Num(x * (1.0 + p / 100.0))), '-' => R::V(Num(x * (1.0 - p / 100.0))), _ => R::Unjudged("number-op-percent") },
        (Money(x, cx), Pct(p)) => match op { '+' => R::V(Money(x * (1.0 + p / 100.0), cx)), '-' => R::V(Money(x * (1.0 - p / 100.0), cx)), _ => R::Unjudged("money-op-percent") },
        (Money(x, cx), Money(y, cy)) => {
            let conv = if cx == cy { y } else {
                match (c.rates.get(&cx), c.rates.get(&cy)) { (Some(rx), Some(ry)) if *rx > 0.0 && *ry > 0.0 => y * rx / ry, _ => return R::Unjudged("currency-without-rate") }
            };
            match op { '+' => R::V(Money(x + conv, cx)), '-' => R::V(Money(x - conv, cx)), '/' => R::V(Num(div(x, conv))), _ => R::Unjudged("money-times-money") }
        }
        (Money(x, cx), Num(k)) => match op { '*' => R::V(Money(x * k, cx)), '/' => R::V(Money(div(x, k), cx)), _ => R::Unjudged("money-plus-number") },
        (Dur { secs: x, .. }, Dur { secs: y, .. }) => match op { '+' => R::V(Dur { secs: x + y, cal: None }), '-' => R::V(Dur { secs: x - y, cal: None }), _ => R::Unjudged("duration-op") },
        (Date(d), Dur { cal, .. }) => {
            let sign = match op { '+' => 1, '-' => -1, _ => return R::Unjudged("date-op") };
            match cal {
                Some(Cal::Days(n)) => { let r = d + sign * n; if (days_from_civil(1, 1, 1)..=days_from_civil(9999, 12, 31)).contains(&r) { R::V(Date(r)) } else { R::Unjudged("date-out-of-range") } }
                Some(Cal::Months(n)) => match shift_months(d, sign * n) { Some(r) => R::V(Date(r)), None => R::Unjudged("day-of-month-does-not-exist") },
                None => R::Unjudged("date-plus-mixed-duration"),
            }
        }
        (Time { wall, zone, off, .. }, Dur { secs, .. }) => match op { '+' => R::V(Time { wall: rem(wall + secs), zone, off, day: i64::MIN }), '-' => R::V(Time { wall: rem(wall - secs), zone, off, day: i64::MIN }), _ => R::Unjudged("time-op") },
        (Unit(x, f, i), Num(k)) => match op { '*' => R::V(Unit(x * k, f, i)), '/' => R::V(Unit(div(x, k), f, i)), _ => R::Unjudged("unit-plus-number") },
        (Unit(x, f, i), Unit(y, g, j)) => {
            if f == g && i == j { match op { '+' => R::V(Unit(x + y, f, i)), '-' => R::V(Unit(x - y, f, i)), '/' => R::V(Num(div(x, y))), _ => R::Unjudged("unit-times-unit") } } else { R::Unjudged("unit-conversion") }
        }
        _ => R::Unjudged("operand-kinds"),
    }
}

/// does the observed value agree with the model value?
pub fn agrees(exp: &MVal, obs: &Val, out: &str) -> bool {
    match (exp, obs) {
        (MVal::Num(a), Val::Num { v, .. }) => close(*a, v.0),
        (MVal::Unix(a), Val::Num { v, ty }) => v.0 == *a as f64 && ty == "Raw" && out == a.to_string(),
        (MVal::Pct(a), Val::Pct(v)) => close(*a, v.0),
        (MVal::Money(a, c), Val::Money { v, code }) => close(*a, v.0) && c.eq_ignore_ascii_case(code),
        (MVal::Dur { secs, .. }, Val::Dur { secs: s, nanos }) => secs == s && *nanos == 0,
        (MVal::Date(d), Val::Date { days, .. }) => d == days && out.split(' ').next() == Some(&civil_from_days(*d).2.to_string()[..]),
        (MVal::Time { wall, zone, off, .. }, Val::Time { utc, zone: z, off: o, .. }) => {
            let w = rem(*wall);
            rem(*utc + *o as i64 * 60) == w && off == o && zone.eq_ignore_ascii_case(z)
                && out.eq_ignore_ascii_case(&format!("{:02}:{:02}:{:02} {}", w / 3600, (w / 60) % 60, w % 60, zone))
        }
        (MVal::DateTime { utc, zone, off }, Val::DateTime { utc: u, zone: z, off: o, .. }) => utc == u && off == o && zone.eq_ignore_ascii_case(z) && datetime_print_ok(*utc, *off, out),
        (MVal::Unit(a, f, i), Val::Unit { v, group, index, .. }) => close(*a, v.0) && f == group && i == index,
        _ => false,
    }
}

pub fn obs_kind(v: &Val) -> &'static str {
    match v {
        Val::Num { .. } => "Num", Val::Pct(_) => "Pct", Val::Money { .. } => "Money", Val::Dur { .. } => "Dur", Val::Time { .. } => "Time",
        Val::Date { .. } => "Date", Val::DateTime { .. } => "DateTime", Val::Unit { .. } => "Unit", Val::Other(_) => "Other",
    }
}

/// structural class of an expression (kinds and operators, no values): the key
/// under which a disagreement is reported, so that known findings can name a
/// shape without naming an input
pub fn shape(e: &Expr) -> String {
    match e {
        Expr::Lit(l) => match l {
            Lit::Num(_) => "num".into(),
            Lit::Pct { .. } => "pct".into(),
            Lit::Money(m) => match (&m.form, m.n.suffix) {
                (crate::lang::CurForm::SymbolAfter { .. }, Some(_)) => "money[suffix,symbol-after]".into(),
                _ => "money".into(),
            },
            Lit::Dur(parts) => {
                let mut classes: Vec<&str> = parts.iter().map(|(n, _, len)| match *len {
                    86400 => if *n >= 30 { "days>=30" } else { "days<30" },
                    604800 => if *n * 7 >= 30 { "weeks>=30d" } else { "weeks<30d" },
                    2592000 => "months",
                    31536000 => "years",
                    _ => "clock-units",
                }).collect();
                classes.sort();
                classes.dedup();
                format!("dur[{}]", classes.join(","))
            }
            Lit::Date(_) => "date".into(),
            Lit::RelDay { .. } => "relday".into(),
            Lit::Time(t) => format!("time[{}{}]", if t.meridiem.is_some() { "ampm" } else { "24h" }, if t.zone.is_some() { ",zone" } else { "" }),
            Lit::Unit { .. } => "unit".into(),
        },
        Expr::Var(_) => "var".into(),
        Expr::Neg(x) => format!("neg({})", shape(x)),
        Expr::Bin { l, op, r, .. } => format!("({} {} {})", shape(l), op, shape(r)),
        Expr::Paren(x) => format!("paren({})", shape(x)),
        Expr::ToCur { e, .. } => format!("tocur({})", shape(e)),
        Expr::ToZone { e, .. } => format!("tozone({})", shape(e)),
        Expr::Between { a, b } => {
            // for differences only "has a zone" matters, not the literal's spelling
            let coarse = |e: &Expr| -> String { match e { Expr::Lit(Lit::Time(t)) => if t.zone.is_some() { "time[zone]".into() } else { "time".into() }, other => shape(other) } };
            format!("between({},{})", coarse(a), coarse(b))
        }
        Expr::AsUnix { e, .. } => format!("asunix({})", shape(e)),
        Expr::FromUnix { e, zone, .. } => format!("fromunix({}{})", shape(e), if zone.is_some() { ",zone" } else { "" }),
        Expr::At { d, t } => format!("at({},{})", shape(d), match &**t { Expr::Lit(Lit::Time(_)) => "time".to_string(), other => shape(other) }),
        Expr::UnitOf { e, .. } => format!("unitof({})", shape(e)),
    }
}

pub fn stmt_shape(s: &Stmt) -> String {
    match s {
        Stmt::Assign { e, .. } => format!("assign {}", shape(e)),
        Stmt::Eval(e) => shape(e),
        Stmt::Fail { .. } => "fail".into(),
        Stmt::FailAssign { .. } => "fail-assign".into(),
    }
}

/// finer class of a date +/- duration line, so that a known finding can name
/// exactly the failing branch (needs the evaluated left operand)
pub fn date_arith_class(e: &Expr, c: &Ctx) -> Option<String> {
    if let Expr::Bin { l, op, r, .. } = e {
        let d = match eval(l, c) { R::V(MVal::Date(d)) => d, _ => return None };
        let cal = match eval(r, c) { R::V(MVal::Dur { cal, .. }) => cal, _ => return None };
        let (_, m, _) = civil_from_days(d);
        return Some(match cal {
            Some(Cal::Days(n)) => if n >= 30 { format!("date{}days>=30", op) } else { format!("date{}days<30", op) },
            Some(Cal::Months(n)) if { let (_, mm, dd) = civil_from_days(d); mm == 2 && dd == 29 && n >= 12 } => format!("date{}months:from-feb-29", op),
            Some(Cal::Months(n)) => {
                let rem = n % 12;
                if *op == '-' {
                    let mm = m as i64 - rem;
                    if mm < 0 { "date-months:borrow".into() } else if mm == 0 { "date-months:lands-on-month-0".into() } else { "date-months:no-borrow".into() }
                } else { "date+months".to_string() }
            }
            None => format!("date{}mixed", op),
        });
    }
    None
}

thread_local! {
    /// year of the simulated instant (UTC), set by the executor before judging a line
    pub static CURRENT_YEAR: std::cell::Cell<i64> = const { std::cell::Cell::new(0) };
}

/// Format-agnostic check of a printed date-time: the text must show the local
/// time of day and the local day of the month in the item's zone, and it may
/// leave out the year only if the local year is the (simulated) current year -
/// otherwise the text denotes another instant.
pub fn datetime_print_ok(utc: i64, off: i32, out: &str) -> bool {
    let local = utc + off as i64 * 60;
    let (y, _, d) = civil_from_days(local.div_euclid(86400));
    let sod = local.rem_euclid(86400);
    let hms = format!("{:02}:{:02}:{:02}", sod / 3600, (sod / 60) % 60, sod % 60);
    if !out.contains(&hms) { return false; }
    let words: Vec<&str> = out.split(' ').collect();
    if words.first().map(|w| *w != d.to_string()).unwrap_or(true) { return false; }
    let has_year = words.iter().any(|w| *w == y.to_string());
    has_year || y == CURRENT_YEAR.with(|c| c.get())
}
