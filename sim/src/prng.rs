//! xoshiro256** seeded through splitmix64.  Own implementation so that the
//! stream cannot drift with a crate version: one seed, one execution.

#[derive(Clone)]
pub struct Rng {
    s: [u64; 4],
}

pub fn splitmix64(x: &mut u64) -> u64 {
    *x = x.wrapping_add(0x9E3779B97F4A7C15);
    let mut z = *x;
    z = (z ^ (z >> 30)).wrapping_mul(0xBF58476D1CE4E5B9);
    z = (z ^ (z >> 27)).wrapping_mul(0x94D049BB133111EB);
    z ^ (z >> 31)
}

/// FNV-1a 64 over bytes; used for hashes that must be stable across runs.
pub fn fnv64(data: &[u8]) -> u64 {
    let mut h: u64 = 0xcbf29ce484222325;
    for b in data {
        h ^= *b as u64;
        h = h.wrapping_mul(0x100000001b3);
    }
    h
}

pub fn mix(base: u64, check: &str, i: u64) -> u64 {
    let mut x = base ^ fnv64(check.as_bytes()).rotate_left(17) ^ i.wrapping_mul(0xD6E8FEB86659FD93);
    let a = splitmix64(&mut x);
    let b = splitmix64(&mut x);
    a ^ b.rotate_left(31)
}

impl Rng {
    pub fn new(seed: u64) -> Rng {
        let mut x = seed;
        let s = [splitmix64(&mut x), splitmix64(&mut x), splitmix64(&mut x), splitmix64(&mut x)];
        Rng { s }
    }
    pub fn next(&mut self) -> u64 {
        let result = self.s[1].wrapping_mul(5).rotate_left(7).wrapping_mul(9);
        let t = self.s[1] << 17;
        self.s[2] ^= self.s[0];
        self.s[3] ^= self.s[1];
        self.s[1] ^= self.s[2];
        self.s[0] ^= self.s[3];
        self.s[2] ^= t;
        self.s[3] = self.s[3].rotate_left(45);
        result
    }
    /// uniform in 0..n (n > 0)
    pub fn below(&mut self, n: u64) -> u64 {
        debug_assert!(n > 0);
        // multiply-shift; bias is irrelevant here
        ((self.next() as u128 * n as u128) >> 64) as u64
    }
    pub fn range(&mut self, lo: i64, hi_incl: i64) -> i64 {
        debug_assert!(hi_incl >= lo);
        lo + self.below((hi_incl - lo + 1) as u64) as i64
    }
    pub fn usize(&mut self, n: usize) -> usize {
        self.below(n as u64) as usize
    }
    pub fn chance(&mut self, num: u64, den: u64) -> bool {
        self.below(den) < num
    }
    pub fn pick<'a, T>(&mut self, xs: &'a [T]) -> &'a T {
        &xs[self.usize(xs.len())]
    }
    pub fn f01(&mut self) -> f64 {
        (self.next() >> 11) as f64 / (1u64 << 53) as f64
    }
    /// weighted choice: returns index
    pub fn weighted(&mut self, w: &[u32]) -> usize {
        let total: u64 = w.iter().map(|x| *x as u64).sum();
        debug_assert!(total > 0);
        let mut r = self.below(total);
        for (i, x) in w.iter().enumerate() {
            if r < *x as u64 {
                return i;
            }
            r -= *x as u64;
        }
        w.len() - 1
    }
    pub fn fork(&mut self) -> Rng {
        Rng::new(self.next())
    }
}
