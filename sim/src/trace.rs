//! Traces: the explicit, replayable description of one simulated execution.
//! A generator turns a seed into a `Trace`; the executor consumes only the
//! trace.  Replay files are traces; shrinking edits traces.

use serde::{Deserialize, Serialize};

use crate::clock::ClockScript;
use crate::lang::Stmt;

#[derive(Debug, Clone, PartialEq, Serialize, Deserialize)]
pub enum Line {
    /// literal text, not judged by any semantic model
    Raw(String),
    /// a line with known meaning: rendered at execution time under the
    /// configuration that is current then, judged by the model
    Sem(Stmt),
}

#[derive(Debug, Clone, PartialEq, Serialize, Deserialize)]
pub struct TextSpec {
    pub lines: Vec<Line>,
    /// separator after line i is CRLF (else LF); only the first len-1 are used
    /// unless `trailing_nl`
    pub crlf: Vec<bool>,
    /// text ends with a separator (which yields one more, empty, line)
    pub trailing_nl: bool,
}

impl TextSpec {
    pub fn single(l: Line) -> TextSpec {
        TextSpec { lines: vec![l], crlf: vec![false], trailing_nl: false }
    }
    pub fn raw(lines: &[&str]) -> TextSpec {
        TextSpec { lines: lines.iter().map(|s| Line::Raw(s.to_string())).collect(), crlf: vec![false; lines.len()], trailing_nl: false }
    }
    pub fn remove_line(&mut self, i: usize) {
        self.lines.remove(i);
        if i < self.crlf.len() { self.crlf.remove(i); }
    }
    /// number of result slots an evaluation must produce
    pub fn expected_slots(&self, rendered: &[String]) -> usize {
        // a rendered line may itself contain separators (raw fuzz text)
        let mut n = 0;
        for r in rendered { n += split_lines(r).len(); }
        if rendered.is_empty() { n = 1; }
        if self.trailing_nl && !rendered.is_empty() { n += 1; }
        n
    }
    pub fn assemble(&self, rendered: &[String]) -> String {
        let mut s = String::new();
        for (i, r) in rendered.iter().enumerate() {
            s.push_str(r);
            let last = i + 1 == rendered.len();
            if !last || self.trailing_nl {
                s.push_str(if self.crlf.get(i).copied().unwrap_or(false) { "\r\n" } else { "\n" });
            }
        }
        s
    }
}

/// Independent line splitter: separators are "\r\n" (taken as one) and "\n";
/// a lone "\r" is not a separator; a trailing separator yields one more empty
/// line; the empty text is one empty line.
pub fn split_lines(text: &str) -> Vec<String> {
    let mut out = Vec::new();
    let mut cur = String::new();
    let mut it = text.chars().peekable();
    while let Some(c) = it.next() {
        if c == '\n' {
            out.push(std::mem::take(&mut cur));
        } else if c == '\r' && it.peek() == Some(&'\n') {
            it.next();
            out.push(std::mem::take(&mut cur));
        } else {
            cur.push(c);
        }
    }
    out.push(cur);
    out
}

#[derive(Debug, Clone, PartialEq, Serialize, Deserialize)]
pub enum ResultSpec {
    Number(f64),
    /// number field `field` times k
    NumberTimes { field: String, k: f64 },
    Money { amount: f64, code: String },
    Percent(f64),
    DurationSecs(i64),
    /// returns the token bound to `field` unchanged
    Echo { field: String },
}

#[derive(Debug, Clone, PartialEq, Serialize, Deserialize)]
pub struct RuleSpec {
    /// identity of the callback object (for the callback log and decisions)
    pub id: u32,
    pub name: String,
    pub patterns: Vec<String>,
    pub result: ResultSpec,
    /// the rule declines when h(salt, id, fields) % decline_den < decline_num
    pub decline_num: u32,
    pub decline_den: u32,
    /// the rule unwinds (panics) when h'(salt, id, fields) % unwind_den == 0 (0 = never)
    pub unwind_den: u32,
}

#[derive(Debug, Clone, PartialEq, Serialize, Deserialize)]
pub struct TypeItemSpec {
    pub family: String,
    pub index: usize,
    pub format: String,
    pub parse: Vec<String>,
    pub upgrade: String,
    pub downgrade: String,
    pub names: Vec<String>,
}

#[derive(Debug, Clone, PartialEq, Serialize, Deserialize)]
pub enum AdminOp {
    UpdateCurrency { name: String, rate: f64 },
    SetTimezone { tz: String },
    SetDecimalSep { s: String },
    SetThousandSep { s: String },
    SetNumberCfg { digits: u8, remove_zero: bool, rounding: bool },
    SetPercentCfg { digits: u8, remove_zero: bool, rounding: bool },
    SetMoneyCfg { remove_zero: bool, rounding: bool },
    AddRule { lang: String, rule: RuleSpec },
    DeleteRule { lang: String, name: String },
    AddType { name: String },
    AddTypeItem(TypeItemSpec),
    /// set_date_rule for both languages: the stock spellings, the numeric one as day/month/year or month/day/year
    SetDateRule { mdy: bool },
    /// the calculator is REPLACED by one built with SmartCalc::load_from_json from the shipped table in which the
    /// dollar's rate is `usd` (plus the stock date spellings, as SmartCalc::default installs them); only meaningful
    /// as the first event of a trace
    LoadTable { usd: f64 },
}

impl AdminOp {
    pub fn kind(&self) -> &'static str {
        match self {
            AdminOp::UpdateCurrency { .. } => "admin.rate_update",
            AdminOp::SetTimezone { .. } => "admin.zone_change",
            AdminOp::SetDecimalSep { .. } | AdminOp::SetThousandSep { .. } | AdminOp::SetNumberCfg { .. } | AdminOp::SetPercentCfg { .. } | AdminOp::SetMoneyCfg { .. } => "admin.format_change",
            AdminOp::SetDateRule { .. } => "admin.date_rule_change",
            AdminOp::LoadTable { .. } => "admin.table_loaded_from_json",
            AdminOp::AddRule { .. } => "admin.rule_add",
            AdminOp::DeleteRule { .. } => "admin.rule_delete",
            AdminOp::AddType { .. } | AdminOp::AddTypeItem(_) => "admin.type_add",
        }
    }
}

#[derive(Debug, Clone, PartialEq, Serialize, Deserialize)]
pub enum Op {
    /// one-shot: calc.execute(lang, text)
    Execute { lang: String, text: TextSpec },
    /// (re)create the client's session with this language (drops the old one)
    SessionNew { lang: String },
    /// session.set_text(text); calc.execute_session(&session)
    SessionText { text: TextSpec },
    /// session.set_language(lang) on the client's live session (its variables must survive)
    SessionLang { lang: String },
    /// calc.format_result(&session, ast) for every value of the session's last result
    SessionFormat,
    /// calc.execute_session(&session) once more WITHOUT a new text (judged only when the
    /// session's current text has exactly one line: the line is evaluated again, at the
    /// instant of this event)
    SessionRerun,
    Admin(AdminOp),
    /// evaluate a probe set on the long-lived calculator and on freshly built
    /// reference calculators (check-specific meaning)
    Checkpoint { probes: Vec<(String, String)> },
    /// `outer` (Execute or SessionText of the event's actor) during which the
    /// simulator schedules other clients' steps at the yield points an
    /// evaluation has: the invocations of caller-supplied rule callbacks.  Inner
    /// step j runs inside callback invocation number `at_call` of the outer
    /// evaluation (or right after the outer call if that invocation never
    /// happens), on the same calculator, under its own frozen instant.
    Nested { outer: Box<Op>, inner: Vec<InnerStep> },
}

#[derive(Debug, Clone, PartialEq, Serialize, Deserialize)]
pub struct InnerStep {
    /// 1-based index of the callback invocation (of the outer evaluation) in which the step runs
    pub at_call: u32,
    pub actor: u8,
    /// true: set_text + execute_session on that actor's session; false: one-shot execute
    pub session: bool,
    pub lang: String,
    pub text: TextSpec,
    /// the step sees the instant `base of the event's clock + dt`
    #[serde(with = "crate::clock::i128s")]
    pub dt: i128,
}

#[derive(Debug, Clone, PartialEq, Serialize, Deserialize)]
pub struct Event {
    /// client id, or 255 for the administrator
    pub actor: u8,
    pub op: Op,
    pub clock: ClockScript,
}

pub const ADMIN: u8 = 255;

#[derive(Debug, Clone, PartialEq, Serialize, Deserialize)]
pub struct Trace {
    pub check: String,
    pub seed: u64,
    /// TZ environment value of the worker the trace was generated for
    pub host_tz: String,
    /// salt of the callback decision function
    pub salt: u64,
    /// check-specific mode string (e.g. "fault-free", "faults")
    pub mode: String,
    pub events: Vec<Event>,
}

impl Trace {
    pub fn hash(&self) -> u64 {
        crate::prng::fnv64(serde_json::to_string(self).unwrap().as_bytes())
    }
    /// hash of the actor/op-kind sequence only
    pub fn interleaving_hash(&self) -> u64 {
        let mut s = String::new();
        for e in &self.events {
            let kind: String = match &e.op {
                Op::Execute { .. } => "x".into(),
                Op::SessionNew { .. } => "n".into(),
                Op::SessionText { .. } => "t".into(),
                Op::SessionRerun => "r".into(),
                Op::SessionFormat => "f".into(),
                Op::SessionLang { .. } => "l".into(),
                Op::Checkpoint { .. } => "c".into(),
                Op::Admin(a) => a.kind().into(),
                Op::Nested { outer, inner } => format!("N{}[{}]", if matches!(**outer, Op::Execute { .. }) { "x" } else { "t" }, inner.iter().map(|i| format!("{}@{}", i.actor, i.at_call)).collect::<Vec<_>>().join(",")),
            };
            s.push_str(&format!("{}:{};", e.actor, kind));
        }
        crate::prng::fnv64(s.as_bytes())
    }
}
