//! C01 — evaluation is total: no panic, no hang, one result slot per line.
//!
//! Simulated environment: wall clock (frozen near boundaries, ticking, crossing
//! a day/month/year boundary or stepping backwards *inside* one evaluation),
//! host time zone (TZ of the worker; time literals placed inside the skipped /
//! repeated hour of the host zone's DST transitions), language tag (known,
//! other, unknown), configuration history through the public setters, session
//! re-use with texts of differing line counts.
//!
//! Oracle O-total: the call returns (no unwind; hangs are caught by the
//! driver's watchdog), status is true, there is exactly one slot per input
//! line, and a well-formed self-contained line that follows malformed lines in
//! the same text evaluates exactly as it does alone at the same instant.

use crate::checks::{Check, Env, RunReport};
use crate::clock::{utc_date, ClockScript, NS};
use crate::gen::clocks::{advance, base_instant, classify_wall, fold, gap, moving_script};
use crate::gen::raw::{mutate, RawGen};
use crate::obs::CallObs;
use crate::prng::Rng;
use crate::trace::{AdminOp, Event, Line, Op, TextSpec, Trace, ADMIN};
use crate::world::World;

pub struct C01;

/// prefix marking the witness line of a text (not part of the text; the
/// executor strips it): a well-formed, self-contained line whose result must
/// not depend on the malformed lines before it
const WITNESS: &str = "\u{1}W:";

fn gen_config(r: &mut Rng, g: &RawGen) -> AdminOp {
    if r.chance(1, 20) { return AdminOp::SetDateRule { mdy: r.chance(1, 2) }; }
    if r.chance(1, 10) {
        // a unit family: a new one, or the name of a built-in family (rejected - and nothing may change)
        return AdminOp::AddType { name: r.pick(&["metric-length", "famq", "metric-weight", "famq", "memory"]).to_string() };
    }
    match r.below(8) {
        0 => { let p = *r.pick(&[",", "."]); AdminOp::SetDecimalSep { s: p.into() } }
        1 => { let p = *r.pick(&[".", ",", ""]); AdminOp::SetThousandSep { s: p.into() } }
        2 => AdminOp::SetNumberCfg { digits: r.below(10) as u8, remove_zero: r.chance(1, 2), rounding: r.chance(1, 2) },
        3 => AdminOp::SetPercentCfg { digits: r.below(10) as u8, remove_zero: r.chance(1, 2), rounding: r.chance(1, 2) },
        4 => AdminOp::SetMoneyCfg { remove_zero: r.chance(1, 2), rounding: r.chance(1, 2) },
        _ => AdminOp::SetTimezone { tz: match r.below(4) { 0 => format!("GMT{}{}", r.pick(&["+", "-"]), r.below(15)), 1 => format!("GMT{}{}:{}", r.pick(&["+", "-"]), r.below(13), r.pick(&["30", "45"])), _ => r.pick(&g.zones).clone() } },
    }
}

impl Check for C01 {
    fn id(&self) -> &'static str { "C01" }

    fn rule(&self) -> &'static str {
        "one run = one calculator driven through a seeded history of configuration changes and evaluations (one-shot and re-used session) of well-formed, mutated and junk texts in known/unknown languages under a scripted clock and the worker's host zone; non-trivial = at least one evaluation AND at least one fired fault (clock boundary/in-op movement, DST gap/fold placement, unknown language, malformed line, session swap, configuration change); distinct = distinct trace hash"
    }

    fn budget(&self, tier: &str) -> u64 { if tier == "thorough" { 60_000 } else { 5_000 } }

    fn generate(&self, seed: u64, tier: &str, env: &Env) -> Trace {
        let mut r = Rng::new(seed);
        // thorough tier: half of the runs are three times as long (deeper histories)
        let dm: u64 = if tier == "thorough" && seed % 2 == 0 { 3 } else { 1 };
        let g = RawGen::new(&env.data);
        let mut t = base_instant(&mut r, &env.host_rule);
        let mut events = Vec::new();
        let n_events = (8 + r.below(30)) * dm;
        let junk_rate = *r.pick(&[0u64, 1, 3, 6]);      // swarm: how much of the text is mutated
        let move_rate = *r.pick(&[0u64, 1, 3]);         // how often the clock moves inside an evaluation
        let cfg_rate = *r.pick(&[0u64, 1, 2]);
        let max_lines = *r.pick(&[1u64, 3, 8, 40]);
        let session_style = r.chance(1, 3);
        let mut dec = ",".to_string();
        let mut have_session = false;
        // a quarter of the runs: caller-supplied rules (patterns of two or more tokens, so that the
        // termination measure of the rewrite loop holds) that accept or decline; lines that reach them
        let with_rules = r.chance(1, 4);
        let mut rule_counter = 0u32;
        if with_rules {
            for _ in 0..(1 + r.below(3)) {
                let op = loop { let op = crate::checks::c04::gen_admin(&mut r, &g, &mut rule_counter, false); if matches!(op, AdminOp::AddRule { .. }) { break op; } };
                events.push(Event { actor: ADMIN, op: Op::Admin(op), clock: ClockScript::Frozen { t } });
            }
        }
        for _ in 0..n_events {
            t = advance(&mut r, t);
            if with_rules && r.chance(1, 12) {
                let op = loop { let op = crate::checks::c04::gen_admin(&mut r, &g, &mut rule_counter, false); if matches!(op, AdminOp::AddRule { .. } | AdminOp::DeleteRule { .. }) { break op; } };
                events.push(Event { actor: ADMIN, op: Op::Admin(op), clock: ClockScript::Frozen { t } });
                continue;
            }
            if r.below(10) < cfg_rate {
                let op = gen_config(&mut r, &g);
                if let AdminOp::SetDecimalSep { s } = &op { dec = s.clone(); }
                events.push(Event { actor: ADMIN, op: Op::Admin(op), clock: ClockScript::Frozen { t } });
                continue;
            }
            let lang = match r.below(12) { 0 => "xx".to_string(), 1 => "".to_string(), 2 | 3 | 4 => "tr".to_string(), _ => "en".to_string() };
            // host-zone fault placement: put the clock on a DST transition date and type a time inside the gap/fold
            let mut dst_line: Option<String> = None;
            if let Some(h) = &env.host_rule {
                if r.chance(1, 6) {
                    let (y, _, _) = utc_date(t);
                    let ((yy, m, d), a, b) = if r.chance(1, 2) { gap(y, h) } else { fold(y, h) };
                    t = crate::clock::instant(yy, m, d, r.below(24) as u32, r.below(60) as u32, 0);
                    let w = a + r.below((b - a) as u64) as i64;
                    dst_line = Some(format!("{}:{:02} {}", w / 3600, (w / 60) % 60, r.pick(&g.zones)));
                }
            }
            let n = match r.below(6) { 0 => 0, 1 => 1, _ => 1 + r.below(max_lines) } as usize;
            let mut lines: Vec<Line> = Vec::new();
            let mut any_bad = false;
            for _ in 0..n {
                let good = if with_rules && r.chance(1, 3) { crate::checks::c04::rule_line(&mut r, &g, &dec) } else { g.any_line(&mut r, &lang, &dec) };
                let line = if r.below(10) < junk_rate {
                    any_bad = true;
                    let other = g.any_line(&mut r, &lang, &dec);
                    let mut m = mutate(&mut r, &good, &other);
                    if r.chance(1, 4) { let o2 = g.any_line(&mut r, &lang, &dec); m = mutate(&mut r, &m, &o2); }
                    // no '=' in malformed lines (a failing assignment legitimately registers its name)
                    // and no embedded separators beyond what split_lines accounts for
                    m.replace('=', " ")
                } else { good };
                let line: String = line.chars().take(200).collect();
                lines.push(Line::Raw(line));
                if r.chance(1, 20) {
                    // clock times held in names: bound now, used by whatever text comes later (another day, another year)
                    let nm = *r.pick(&["alpha", "budget", "netto", "salary"]);
                    match r.below(5) {
                        4 => lines.push(Line::Raw(format!("{} = {}/{}/{} at {}:{:02}", nm, 1 + r.below(28), 1 + r.below(12), 1990 + r.below(60), r.below(24), r.below(60)))),
                        0 | 1 => lines.push(Line::Raw(format!("{} = {}:{:02}{}", nm, r.below(24), r.below(60), r.pick(&["", "", " EST", " CET"])))),
                        2 => lines.push(Line::Raw(format!("{} to {}:{:02}", nm, r.below(24), r.below(60)))),
                        _ => lines.push(Line::Raw(format!("{}{}", nm, r.pick(&["", " EST", " to CET", " + 2 hours", " as unix"])))),
                    }
                }
                if r.chance(1, 25) {
                    // a binding whose right-hand side parses but fails in the interpreter, then a use of the name
                    let nm = *r.pick(&["alpha", "budget", "netto", "salary"]);
                    lines.push(Line::Raw(format!("{} = {}", nm, r.pick(&["10:30 * 2", "1 hour + 2", "today * today", "3 km + 2 usd"]))));
                    lines.push(Line::Raw(format!("{} + 1", nm)));
                }
            }
            if let Some(dl) = dst_line { lines.push(Line::Raw(dl)); }
            if any_bad && r.chance(1, 2) {
                // witness: self-contained well-formed line without names
                let w = match r.below(5) { 0 => g.arith(&mut r, &dec), 1 => g.money_line(&mut r, &dec), 2 => g.duration_line(&mut r, "en"), 3 => g.percent(&mut r, &dec), _ => g.unit_line(&mut r, &dec) };
                lines.push(Line::Raw(format!("{}{}", WITNESS, w)));
            }
            let crlf = (0..lines.len()).map(|_| r.chance(1, 4)).collect();
            let text = TextSpec { lines, crlf, trailing_nl: r.chance(1, 6) };
            let clock = if r.below(10) < move_rate { moving_script(&mut r, t, 6) } else { ClockScript::Frozen { t } };
            if session_style && r.chance(2, 3) {
                if !have_session || r.chance(1, 8) {
                    have_session = true;
                    events.push(Event { actor: 0, op: Op::SessionNew { lang: lang.clone() }, clock: ClockScript::Frozen { t } });
                }
                if r.chance(1, 10) {
                    // the live session is switched to another language tag (also one the configuration does not know);
                    // whatever its names hold is printed under that tag from now on
                    events.push(Event { actor: 0, op: Op::SessionLang { lang: r.pick(&["xx", "de", "", "tr", "en"]).to_string() }, clock: ClockScript::Frozen { t } });
                }
                events.push(Event { actor: 0, op: Op::SessionText { text }, clock });
            } else {
                events.push(Event { actor: 1, op: Op::Execute { lang, text }, clock });
            }
        }
        crate::gen::session_variants(&mut r, &mut events, 3, 6, 0);
        crate::gen::nest_variants(&mut r, &mut events);
        Trace { check: "C01".into(), seed, host_tz: env.host_tz.clone(), salt: seed ^ 0x5a17, mode: if with_rules { "mixed+rules".into() } else { "mixed".into() }, events }
    }

    fn execute(&self, trace: &Trace, env: &Env) -> RunReport {
        let mut rep = RunReport::default();
        let t0 = trace.events.first().map(|e| e.clock.base()).unwrap_or(NS);
        let mut w = World::new(&env.data, trace.salt, t0);
        w.explain = env.explain;
        let mut last_t = t0;
        // per session client: slot count of its current text, its language
        let mut last_slots_of: std::collections::BTreeMap<u8, usize> = std::collections::BTreeMap::new();
        let mut lang_of: std::collections::BTreeMap<u8, String> = std::collections::BTreeMap::new();
        for (ei, ev) in trace.events.iter().enumerate() {
            let t = ev.clock.base();
            if t > last_t { rep.count("clock.advance_between_ops"); } else if t < last_t { rep.count("clock.step_back_between_ops"); }
            last_t = t;
            match &ev.op {
                Op::Admin(op) => {
                    let o = w.admin(op, &ev.clock);
                    let _ = w.cfg.apply(&env.data, op);
                    rep.mix_obs(&format!("{:?}", o));
                    rep.count(op.kind());
                    if let crate::world::AdminObs::Unwound(p) = o {
                        rep.violate("O-total", format!("admin-{}", p.key()), ei, format!("configuration call {:?} panicked: {} at {}", op, p.msg, p.loc));
                    }
                }
                Op::Checkpoint { .. } | Op::SessionFormat => {}
                Op::Nested { outer, inner } => {
                    // totality under re-entrance: another text is evaluated inside a callback invocation of this one
                    let (lang, text, is_session) = match &**outer {
                        Op::Execute { lang, text } => (lang.clone(), text, false),
                        Op::SessionText { text } => (lang_of.get(&ev.actor).cloned().unwrap_or_else(|| "en".into()), text, true),
                        _ => continue,
                    };
                    if is_session && !w.sessions.contains_key(&ev.actor) { w.session_new(ev.actor, &lang); }
                    let strip = |v: Vec<String>| -> Vec<String> { v.into_iter().map(|l| l.strip_prefix(WITNESS).map(|x| x.to_string()).unwrap_or(l)).collect() };
                    let rendered = strip(w.render(text));
                    let full = text.assemble(&rendered);
                    let want = text.expected_slots(&rendered);
                    if is_session { last_slots_of.insert(ev.actor, want); }
                    let mut calls = Vec::new();
                    let mut wants = Vec::new();
                    for (idx, st) in inner.iter().enumerate() {
                        let r2 = strip(w.render(&st.text));
                        wants.push((st.text.assemble(&r2), st.text.expected_slots(&r2)));
                        calls.push(crate::world::InnerCall { idx, at_call: st.at_call, actor: st.actor, session: false, lang: st.lang.clone(), text: wants[idx].0.clone(), t: t + st.dt });
                    }
                    let (o, clk, results) = w.run_nested(if is_session { Some(ev.actor) } else { None }, &lang, &full, &ev.clock, calls);
                    rep.evaluations += 1 + results.len() as u64;
                    rep.clock_reads += clk.values.len() as u64;
                    let mut total = |rep: &mut RunReport, who: &str, o: &CallObs, full: &str, want: usize| {
                        rep.mix_obs(&o.short());
                        rep.judged += 1;
                        match o {
                            CallObs::Unwound(p) => rep.violate("O-total", p.key(), ei, format!("{} text {:?} panicked: {} at {} in {}", who, full, p.msg, p.loc, p.func)),
                            CallObs::Returned { status, lines } => {
                                if !*status { rep.violate("O-total", format!("status-false:{}", who), ei, format!("{} text {:?} returned status=false", who, full)); }
                                else if lines.len() != want { rep.violate("O-total", format!("slot-count:{}", who), ei, format!("{} text {:?} has {} lines but {} result slots", who, full, want, lines.len())); }
                            }
                        }
                    };
                    total(&mut rep, "nested-outer", &o, &full, want);
                    for res in results.iter() {
                        if res.fired_in_call.is_some() { rep.count("sched.step_inside_callback"); } else { rep.count("probe.nested_not_reached"); }
                        total(&mut rep, "nested-inner", &res.obs, &wants[res.idx].0, wants[res.idx].1);
                    }
                }
                Op::SessionLang { lang } => {
                    if w.sessions.contains_key(&ev.actor) { w.session_set_language(ev.actor, lang); lang_of.insert(ev.actor, lang.clone()); rep.count("session.language_switch"); }
                }
                Op::SessionRerun => {
                    // the session is evaluated once more without a new text: a one-line text yields its one slot again
                    let last_slots = last_slots_of.get(&ev.actor).cloned();
                    if last_slots.is_none() && w.sessions.contains_key(&ev.actor) {
                        // before any text was set: the call has nothing to evaluate but must return
                        let (o, _) = w.session_rerun(ev.actor, &ev.clock);
                        rep.count("session.evaluated_before_any_text");
                        rep.judged += 1;
                        if let CallObs::Unwound(p) = &o { rep.violate("O-total", p.key(), ei, format!("evaluating a session that has no text yet panicked: {} at {} in {}", p.msg, p.loc, p.func)); }
                        continue;
                    }
                    if last_slots != Some(1) || !w.sessions.contains_key(&ev.actor) { continue; }
                    let (o, clk) = w.session_rerun(ev.actor, &ev.clock);
                    rep.evaluations += 1;
                    rep.clock_reads += clk.values.len() as u64;
                    rep.mix_obs(&o.short());
                    rep.judged += 1;
                    rep.count("session.rerun_without_new_text");
                    match &o {
                        CallObs::Unwound(p) => rep.violate("O-total", p.key(), ei, format!("evaluating the session again without a new text panicked: {} at {} in {}", p.msg, p.loc, p.func)),
                        CallObs::Returned { status, lines } => {
                            if !*status { rep.violate("O-total", "status-false:session-rerun".into(), ei, "evaluating a one-line session again returned status=false".into()); }
                            else if lines.len() != 1 { rep.violate("O-total", "slot-count:session-rerun".into(), ei, format!("evaluating a one-line session again gave {} slots", lines.len())); }
                        }
                    }
                }
                Op::SessionNew { lang } => {
                    if w.sessions.contains_key(&ev.actor) { rep.count("session.drop_recreate"); }
                    w.session_new(ev.actor, lang);
                    lang_of.insert(ev.actor, lang.clone());
                    last_slots_of.remove(&ev.actor);
                }
                Op::Execute { .. } | Op::SessionText { .. } => {
                    let (lang, text, is_session) = match &ev.op {
                        Op::Execute { lang, text } => (lang.clone(), text, false),
                        Op::SessionText { text } => (lang_of.get(&ev.actor).cloned().unwrap_or_else(|| "en".into()), text, true),
                        _ => unreachable!(),
                    };
                    if is_session && !w.sessions.contains_key(&ev.actor) { w.session_new(ev.actor, &lang); }
                    let mut rendered = w.render(text);
                    let mut witness: Option<(usize, String)> = None;
                    let mut slot_base = 0usize;
                    for (i, l) in rendered.iter_mut().enumerate() {
                        if let Some(rest) = l.strip_prefix(WITNESS) {
                            *l = rest.to_string();
                            witness = Some((slot_base, l.clone()));
                            let _ = i;
                        }
                        slot_base += crate::trace::split_lines(l).len();
                    }
                    let full = text.assemble(&rendered);
                    let want = text.expected_slots(&rendered);
                    // fault accounting (what actually fired)
                    if !env.data.langs.contains_key(&lang) { rep.count("lang.unknown"); } else if lang != "en" { rep.count("lang.other"); }
                    let date = utc_date(t);
                    for l in rendered.iter() { if let Some(k) = dst_class(l, date, env) { rep.count(k); } }
                    if boundary_near(t) { rep.count("clock.frozen_boundary"); }
                    if is_session {
                        match last_slots_of.get(&ev.actor).cloned() { Some(p) if p > want => rep.count("session.swap_shrink"), Some(p) if p < want => rep.count("session.swap_grow"), Some(_) => rep.count("session.swap_same"), None => {} }
                        last_slots_of.insert(ev.actor, want);
                    }
                    let calls_before = w.log.borrow().len();
                    let (o, clk) = if is_session { w.session_text(ev.actor, &full, &ev.clock) } else { w.execute(&lang, &full, &ev.clock) };
                    for rec in w.log.borrow()[calls_before..].iter() { rep.count(if rec.decision == crate::rules::Decision::Decline { "rule.decline" } else { "probe.rule_accept" }); }
                    rep.evaluations += 1;
                    rep.clock_reads += clk.values.len() as u64;
                    if !ev.clock.is_frozen() && clk.distinct_values().len() > 1 { rep.count(&format!("clock.{}", ev.clock.kind())); }
                    rep.mix_obs(&o.short());
                    rep.judged += 1;
                    match &o {
                        CallObs::Unwound(p) => {
                            rep.violate("O-total", p.key(), ei, format!("evaluating {:?} (lang {:?}, {}) panicked: {} at {} in {}", full, lang, if is_session { "session" } else { "one-shot" }, p.msg, p.loc, p.func));
                        }
                        CallObs::Returned { status, lines } => {
                            if !*status {
                                rep.violate("O-total", format!("status-false:{}", if is_session { "session" } else { "one-shot" }), ei, format!("evaluating {:?} returned status=false ({} slots, {} lines)", full, lines.len(), want));
                            } else if lines.len() != want {
                                rep.violate("O-total", format!("slot-count:{}", if is_session { "session" } else { "one-shot" }), ei, format!("text {:?} has {} lines but {} result slots", full, want, lines.len()));
                            } else if let Some((idx, wl)) = &witness {
                                // recovery: the witness evaluates as it does alone, at the same instant
                                if ev.clock.is_frozen() && env.data.langs.contains_key(&lang) {
                                    rep.count("line.malformed_before_witness");
                                    let (alone, _) = w.execute(&lang, wl, &ev.clock);
                                    let a = alone.lines().and_then(|l| l.first().cloned());
                                    let b = lines.get(*idx).cloned();
                                    let same = match (&a, &b) { (Some(x), Some(y)) => x.slot == y.slot, _ => false };
                                    if !same {
                                        rep.violate("O-total", "recovery-differs".into(), ei, format!("line {:?} evaluates to {:?} alone but to {:?} after malformed lines in text {:?}", wl, a.map(|x| x.slot.short()), b.map(|x| x.slot.short()), full));
                                    }
                                }
                            }
                        }
                    }
                }
            }
        }
        if let (Some(a), Some(b)) = (trace.events.first(), trace.events.last()) {
            rep.sim_span_s = ((b.clock.base() - a.clock.base()) as f64 / 1e9).abs();
        }
        rep
    }
}

fn boundary_near(t: i128) -> bool {
    let day = 86400 * NS;
    let r = t.rem_euclid(day);
    r < 2 * NS || day - r <= 2 * NS
}

/// does this line type a wall time that is skipped/repeated in the host zone today?
fn dst_class(line: &str, date: (i64, u32, u32), env: &Env) -> Option<&'static str> {
    env.host_rule.as_ref()?;
    // "H:MM ZONE" at the start of the line
    let mut it = line.split(' ');
    let hm = it.next()?;
    let zone = it.next()?;
    if !env.data.zones.contains_key(&zone.to_uppercase()) { return None; }
    let (h, m) = hm.split_once(':')?;
    let h: i64 = h.parse().ok()?;
    let m: i64 = m.get(..2)?.parse().ok()?;
    if !(0..24).contains(&h) || !(0..60).contains(&m) { return None; }
    match classify_wall(date, h * 3600 + m * 60, &env.host_rule) { "gap" => Some("tz.dst_gap"), "fold" => Some("tz.dst_fold"), _ => None }
}
