//! C15 — printed results can be typed back in: formatter and reader agree.
//!
//! A two-evaluation history: evaluate a value line, then evaluate its printed
//! form under the same configuration, language, frozen instant and host zone;
//! the second print must equal the first (O-roundtrip).  The simulator owns the
//! instant (dates print without their year in the simulated current year - on
//! 31 December just as on any other day - and read back with the simulated
//! current year as default), the host zone (a printed "HH:MM:SS ZONE" goes
//! back through the zone path), and the configuration history set through the
//! public setters.  Clock-free kinds gain nothing from the simulator beyond
//! seeded generation; they are run so that the check covers the statement and
//! are counted separately (pairs_clock_free vs pairs_clock_dependent).

use crate::checks::{Check, Env, RunReport};
use crate::clock::{days_in_month, utc_date, ClockScript, NS};
use crate::gen::clocks::{advance, base_instant};
use crate::gen::raw::RawGen;
use crate::gen::sem::SemGen;
use crate::obs::{CallObs, Slot, Val};
use crate::prng::Rng;
use crate::trace::{AdminOp, Event, Line, Op, TextSpec, Trace, ADMIN};
use crate::world::World;

pub struct C15;

const MARK: &str = "\u{1}K:";

fn num_text(r: &mut Rng, dec: &str) -> String {
    if r.chance(1, 12) {
        // just below a power of ten: rounding to the printed digits carries into a new leading digit
        let nines = "9".repeat(1 + r.usize(4));
        let frac = format!("{}{}", "9".repeat(r.usize(5)), 5 + r.below(5));
        return format!("{}{}{}{}", if r.chance(1, 5) { "-" } else { "" }, nines, dec, frac);
    }
    if r.chance(1, 30) {
        // small negative values: with few printed digits they print as a (signed) zero
        return format!("-0{}{}{}", dec, "0".repeat(r.usize(4)), 1 + r.below(9));
    }
    match r.below(7) {
        0 => format!("{}", r.below(1000)),
        1 => format!("{}{}{}", r.below(100000), dec, r.below(1000)),
        2 => format!("-{}{}{}", r.below(1000), dec, r.below(100)),
        3 => format!("{}", 1000 + r.below(100_000_000)),
        4 => format!("0{}{:04}", dec, r.below(10000)),
        5 => format!("{}{}5", r.below(100), dec),
        _ => format!("{}{}{:02}", r.below(10000), dec, r.below(100)),
    }
}

/// (kind tag, line)
fn gen_value(r: &mut Rng, g: &RawGen, sg: &SemGen, lang: &str, dec: &str, today: (i64, u32, u32)) -> (String, String) {
    match r.below(16) {
        0 | 1 => ("number".into(), num_text(r, dec)),
        2 => ("percent".into(), if r.chance(1, 2) { format!("{}%", num_text(r, dec)) } else { format!("%{}", num_text(r, dec)) }),
        3 | 4 => {
            // currencies that have a configured symbol or alias
            let codes: Vec<String> = { let mut v: Vec<String> = g.data.currency_alias.values().cloned().collect(); v.sort(); v.dedup(); v };
            // BGN and SEK (known findings: unreadable / ambiguous symbol) only now and then
            let mut code = r.pick(&codes).clone();
            if (code == "BGN" || code == "SEK") && !r.chance(1, 8) { code = r.pick(&["USD", "EUR", "TRY", "DKK"]).to_string(); }
            (format!("money:{}", code), format!("{} {}", num_text(r, dec), code.to_lowercase()))
        }
        5 | 6 => {
            let n = 1 + r.usize(3);
            let mut parts = Vec::new();
            for _ in 0..n { parts.push(format!("{} {}", 1 + r.below(40), g.duration_word(r, lang))); }
            ("duration".into(), parts.join(" "))
        }
        7 | 8 if lang == "en" => {
            let (z, _) = sg.zone(r);
            ("time".into(), format!("{}:{:02} {}", r.below(24), r.below(60), z))
        }
        9 | 10 | 11 => {
            // dates inside and outside the simulated current year, incl. month ends
            let y = match r.below(4) { 0 | 1 => today.0, 2 => today.0 + 1 - r.below(3) as i64, _ => if r.chance(1, 5) { 1 + r.below(999) as i64 } else { 1000 + r.below(8000) as i64 } }.clamp(1, 9999);
            let m = 1 + r.below(12) as u32;
            let d = match r.below(4) { 0 => days_in_month(y, m), 1 => 1, _ => 1 + r.below(days_in_month(y, m) as u64) as u32 };
            if lang == "en" && r.chance(1, 10) {
                // a date that only arithmetic reaches (years 1..99 and other early years)
                let base = 2000 + r.below(30) as i64;
                let span = if r.chance(1, 2) { 99 } else { 900 }; let back = base - 1 - r.below(span) as i64;
                ("date".into(), format!("{}/{}/{} - {} years", 1 + r.below(28), m, base, back.max(1)))
            }
            else if r.chance(1, 6) { ("date".into(), if lang == "tr" { r.pick(&["bugün", "dün"]).to_string() } else { r.pick(&["today", "tomorrow", "yesterday"]).to_string() }) }
            else { ("date".into(), format!("{}/{}/{}", d, m, y)) }
        }
        12 | 13 => {
            let u = r.pick(&g.data.units);
            let w = u.parse_words.iter().find(|w| w.len() >= 2).cloned().unwrap_or_else(|| u.parse_words[0].clone());
            (format!("unit:{}", u.family), format!("{} {}", num_text(r, dec).trim_start_matches('-'), w))
        }
        _ => {
            let v = r.below(1 << 30);
            ("based".into(), match r.below(5) { 0 => format!("0x{:X}", v), 1 => format!("0b{:b}", v & 0xffff), 2 => format!("0o{:o}", v), 3 if lang == "en" => format!("{} to hex", v), _ if lang == "en" => format!("{} to binary", v & 0xfff), _ => format!("0x{:x}", v) })
        }
    }
}

fn kind_of(v: &Val) -> &'static str {
    match v { Val::Num { ty, .. } => if ty == "Decimal" { "number" } else { "based" }, Val::Pct(_) => "percent", Val::Money { .. } => "money", Val::Dur { .. } => "duration", Val::Time { .. } => "time", Val::Date { .. } => "date", Val::Unit { .. } => "unit", _ => "other" }
}

impl Check for C15 {
    fn id(&self) -> &'static str { "C15" }

    fn rule(&self) -> &'static str {
        "one run = one calculator, a seeded history of separator / digit / flag / default-zone changes and value lines of every printable kind in en and tr; every value is printed, the print is evaluated again at the same frozen boundary-biased instant under the worker's host zone, and must print identically; non-trivial = at least one judged pair AND at least one fired fault (configuration change, boundary freeze, advance over midnight/new year, other language); distinct = distinct trace hash"
    }

    fn budget(&self, tier: &str) -> u64 { if tier == "thorough" { 60_000 } else { 6_000 } }

    fn generate(&self, seed: u64, tier: &str, env: &Env) -> Trace {
        let mut r = Rng::new(seed);
        // thorough tier: half of the runs are three times as long (deeper histories)
        let dm: u64 = if tier == "thorough" && seed % 2 == 0 { 3 } else { 1 };
        let g = RawGen::new(&env.data);
        let sg = SemGen::new(&env.data);
        let mut t = base_instant(&mut r, &env.host_rule);
        let n = (8 + r.below(20)) * dm;
        let cfg_rate = *r.pick(&[0u64, 1, 3]);
        let mut lang = if r.chance(1, 3) { "tr" } else { "en" };
        let mut dec = ",".to_string();
        let mut events = Vec::new();
        // a third of the runs: every value goes through ONE long-lived session whose language is switched
        // between values (what a session keeps from earlier prints must not leak into later ones)
        let session = r.chance(1, 3);
        let first_lang = lang;
        if session { events.push(Event { actor: 0, op: Op::SessionNew { lang: lang.into() }, clock: ClockScript::Frozen { t } }); }
        // a third of the runs: user-defined units registered while the calculator is already in use
        let user_units = r.chance(1, 3);
        let mut fam_items: Vec<(String, usize)> = Vec::new();
        let mut fam_added = false;
        if r.chance(1, 6) {
            // around New Year under a non-UTC default zone: the year shown/elided and the default year read
            // back must agree although the zone's year and the UTC year differ for some hours
            let y = utc_date(t).0.min(9997);
            t = crate::gen::clocks::clamp_instant((crate::clock::days_from_civil(y + 1, 1, 1) as i128 * 86400 + r.range(-14 * 3600, 14 * 3600) as i128) * NS);
            let tz = { let h = 1 + r.below(14); format!("GMT{}{}", if r.chance(1, 2) { "+" } else { "-" }, h.min(12)) };
            events.push(Event { actor: ADMIN, op: Op::Admin(AdminOp::SetTimezone { tz }), clock: ClockScript::Frozen { t } });
        }
        for _ in 0..n {
            t = advance(&mut r, t);
            let clock = ClockScript::Frozen { t };
            if r.below(10) < cfg_rate {
                match r.below(8) {
                    0 | 1 => {
                        let (d, th) = *r.pick(&[(",", "."), (".", ","), (".", ""), (",", "")]);
                        dec = d.to_string();
                        // the two setters in either order
                        let a = Event { actor: ADMIN, op: Op::Admin(AdminOp::SetDecimalSep { s: d.into() }), clock: clock.clone() };
                        let b = Event { actor: ADMIN, op: Op::Admin(AdminOp::SetThousandSep { s: th.into() }), clock };
                        if r.chance(1, 2) { events.push(a); events.push(b); } else { events.push(b); events.push(a); }
                    }
                    2 => events.push(Event { actor: ADMIN, op: Op::Admin(AdminOp::SetNumberCfg { digits: r.below(10) as u8, remove_zero: r.chance(1, 2), rounding: r.chance(3, 4) }), clock }),
                    3 => events.push(Event { actor: ADMIN, op: Op::Admin(AdminOp::SetPercentCfg { digits: r.below(10) as u8, remove_zero: r.chance(1, 2), rounding: r.chance(3, 4) }), clock }),
                    4 => events.push(Event { actor: ADMIN, op: Op::Admin(AdminOp::SetMoneyCfg { remove_zero: r.chance(1, 2), rounding: r.chance(3, 4) }), clock }),
                    5 => events.push(Event { actor: ADMIN, op: Op::Admin(AdminOp::SetTimezone { tz: sg.zone(&mut r).0 }), clock }),
                    _ => {
                        // a rate update (by code, alias or symbol; now and then an unknown name): the rate is not
                        // the subject here, but nothing about how amounts are printed or read may change
                        let code = sg.rated_code(&mut r);
                        let name = match r.below(5) { 0 => "nosuchcoin".to_string(), 1 => sg.currency_word(&mut r, &code), _ => code.to_lowercase() };
                        events.push(Event { actor: ADMIN, op: Op::Admin(AdminOp::UpdateCurrency { name, rate: (1 + r.below(2_000_000)) as f64 / 1000.0 }), clock });
                    }
                }
                continue;
            }
            if user_units && r.chance(1, 4) {
                if !fam_added { fam_added = true; events.push(Event { actor: ADMIN, op: Op::Admin(AdminOp::AddType { name: "famq".into() }), clock: clock.clone() }); }
                let idx = 1 + fam_items.len();
                if idx <= 4 {
                    let unit = format!("famq{}", (b'a' + idx as u8) as char);
                    let k = *r.pick(&[2u32, 5, 10]);
                    events.push(Event { actor: ADMIN, op: Op::Admin(AdminOp::AddTypeItem(crate::trace::TypeItemSpec { family: "famq".into(), index: idx, format: format!("{{value}} {}", unit), parse: vec![format!("{{NUMBER:value}} {{TEXT:type:{}}}", unit)], upgrade: format!("{{value}} / {}", k), downgrade: format!("{{value}} * {}", k), names: vec![unit.clone()] })), clock });
                    fam_items.push((unit, idx));
                    continue;
                }
            }
            if session && r.chance(1, 3) {
                lang = if lang == "en" { "tr" } else { "en" };
                events.push(Event { actor: 0, op: Op::SessionLang { lang: lang.into() }, clock: clock.clone() });
            }
            let k = 1 + r.usize(4);
            let today = utc_date(t);
            let lines: Vec<Line> = (0..k).map(|_| {
                let (kind, line) = if !fam_items.is_empty() && r.chance(1, 3) {
                    // a quantity of a user-defined unit, directly or as the result of a conversion along the chain
                    let (u, _) = r.pick(&fam_items).clone();
                    if lang == "en" && fam_items.len() > 1 && r.chance(1, 2) { let (u2, _) = r.pick(&fam_items).clone(); ("unit:famq".to_string(), format!("{} {} to {}", 100 * (1 + r.below(90)), u, u2)) } else { ("unit:famq".to_string(), format!("{} {}", 1 + r.below(5000), u)) }
                } else { gen_value(&mut r, &g, &sg, lang, &dec, today) };
                Line::Raw(format!("{}{}\u{1}{}", MARK, kind, line))
            }).collect();
            let text = TextSpec { crlf: vec![false; lines.len()], lines, trailing_nl: false };
            events.push(Event { actor: 0, op: if session { Op::SessionText { text } } else { Op::Execute { lang: lang.into(), text } }, clock });
        }
        if r.chance(1, 5) {
            // scheduling inside evaluations: a rule that hands its operand back unchanged ("<value> wrapd"), so that
            // the value is PRINTED after a callback ran - and inside that callback two lines in the other language
            // are evaluated on the same calculator
            let t0 = events.first().map(|e| e.clock.base()).unwrap_or(NS);
            let pats: Vec<String> = ["DURATION", "DATE", "TIME", "MONEY", "NUMBER", "PERCENT", "DYNAMIC_TYPE"].iter().map(|k| format!("{{{}:v}} wrapd", k)).collect();
            let mut head: Vec<Event> = Vec::new();
            for (k, l) in ["en", "tr"].iter().enumerate() {
                head.push(Event { actor: ADMIN, op: Op::Admin(AdminOp::AddRule { lang: l.to_string(), rule: crate::trace::RuleSpec { id: 905 + k as u32, name: "wraprule".into(), patterns: pats.clone(), result: crate::trace::ResultSpec::Echo { field: "v".into() }, decline_num: 0, decline_den: 0, unwind_den: 0 } }), clock: ClockScript::Frozen { t: t0 } });
            }
            let mut cur_lang: std::collections::BTreeMap<u8, String> = std::collections::BTreeMap::new();
            for ev in events.iter_mut() {
                if let Op::SessionNew { lang } | Op::SessionLang { lang } = &ev.op { cur_lang.insert(ev.actor, lang.clone()); }
                let outer_lang = match &ev.op { Op::Execute { lang, .. } => lang.clone(), Op::SessionText { .. } => cur_lang.get(&ev.actor).cloned().unwrap_or_else(|| "en".into()), _ => continue };
                if !r.chance(1, 2) { continue; }
                let other = if outer_lang == "tr" { "en" } else { "tr" };
                let inner = vec![crate::trace::InnerStep { at_call: 1, actor: 121, session: false, lang: other.to_string(), text: TextSpec::raw(&["12 + 30", "2 * 21"]), dt: 0 }];
                ev.op = Op::Nested { outer: Box::new(ev.op.clone()), inner };
            }
            head.extend(events.drain(..));
            events = head;
        }
        crate::gen::decliner_variants(&mut r, &mut events);
        Trace { check: "C15".into(), seed, host_tz: env.host_tz.clone(), salt: 0, mode: format!("{}{}{}", first_lang, if session { "+session" } else { "" }, if user_units { "+user-units" } else { "" }), events }
    }

    fn execute(&self, trace: &Trace, env: &Env) -> RunReport {
        let mut rep = RunReport::default();
        let t0 = trace.events.first().map(|e| e.clock.base()).unwrap_or(NS);
        let mut w = World::new(&env.data, 0, t0);
        let mut last_t = t0;
        let mut session_lang = String::from("en");
        for (ei, ev) in trace.events.iter().enumerate() {
            let t = ev.clock.base();
            if utc_date(t).0 != utc_date(last_t).0 { rep.count("clock.advance_over_new_year"); }
            if crate::clock::utc_days(t) != crate::clock::utc_days(last_t) { rep.count("clock.advance_over_midnight"); }
            last_t = t;
            match &ev.op {
                Op::Admin(op) => { let _ = w.admin(op, &ev.clock); let _ = w.cfg.apply(&env.data, op); rep.count(op.kind()); }
                Op::SessionNew { lang } => { w.session_new(ev.actor, lang); session_lang = lang.clone(); }
                Op::SessionLang { lang } => { if w.sessions.contains_key(&ev.actor) { w.session_set_language(ev.actor, lang); session_lang = lang.clone(); rep.count("session.language_switch"); } }
                Op::Execute { .. } | Op::SessionText { .. } | Op::Nested { .. } => {
                    // (nested: the value is printed by an evaluation during which ANOTHER text - possibly in the other
                    // language - was evaluated inside a rule callback; the print must still read back under this language)
                    let (base_op, inner): (&Op, Option<&Vec<crate::trace::InnerStep>>) = match &ev.op { Op::Nested { outer, inner } => (&**outer, Some(inner)), other => (other, None) };
                    let (lang, text, via_session) = match base_op { Op::Execute { lang, text } => (lang.clone(), text, false), Op::SessionText { text } => (session_lang.clone(), text, true), _ => continue };
                    let lang = &lang;
                    if via_session && !w.sessions.contains_key(&ev.actor) { w.session_new(ev.actor, lang); }
                    if via_session { rep.count("session.value_through_long_lived_session"); }
                    if lang != "en" { rep.count("lang.other"); }
                    { let day = 86400 * NS; let rr = t.rem_euclid(day); if rr < 2 * NS || day - rr <= 2 * NS { rep.count("clock.frozen_boundary"); } }
                    for l in text.lines.iter() {
                        let raw = match l { Line::Raw(s) => s, _ => continue };
                        let (kind, line) = match raw.strip_prefix(MARK).and_then(|x| x.split_once('\u{1}')) { Some((k, l)) => (k.to_string(), l.to_string()), None => ("?".to_string(), raw.clone()) };
                        let base_kind = kind.split(':').next().unwrap_or("?").to_string();
                        let (o1, _) = match inner {
                            Some(steps) if !steps.is_empty() => {
                                // "<value> wrapd": the rule hands the value back; the other text runs inside its callback, the value is printed afterwards
                                let st = &steps[0];
                                let r2: Vec<String> = st.text.lines.iter().map(|l| match l { Line::Raw(s) => s.strip_prefix(MARK).and_then(|x| x.split_once('\u{1}')).map(|(_, l)| l.to_string()).unwrap_or_else(|| s.clone()), Line::Sem(_) => String::new() }).collect();
                                let calls = vec![crate::world::InnerCall { idx: 0, at_call: 1, actor: st.actor, session: false, lang: st.lang.clone(), text: st.text.assemble(&r2), t: t + st.dt }];
                                let full = format!("{} wrapd", line);
                                let (o, log, results) = w.run_nested(if via_session { Some(ev.actor) } else { None }, lang, &full, &ClockScript::Frozen { t }, calls);
                                if results.iter().any(|r| r.fired_in_call.is_some()) { rep.count("sched.step_inside_callback"); }
                                // keep only the slot of the value line
                                let o = match o { CallObs::Returned { status, mut lines } => { let last = lines.pop(); CallObs::Returned { status, lines: last.into_iter().collect() } } other => other };
                                (o, log)
                            }
                            _ => if via_session { w.session_text(ev.actor, &line, &ev.clock) } else { w.execute(lang, &line, &ev.clock) },
                        };
                        rep.evaluations += 1;
                        rep.mix_obs(&o1.short());
                        let s1 = match &o1 { CallObs::Returned { lines, .. } => lines.first().map(|x| x.slot.clone()), CallObs::Unwound(p) => { rep.violate("O-roundtrip", format!("C15:{}", p.key()), ei, format!("evaluating {:?} panicked: {} at {}", line, p.msg, p.loc)); continue; } };
                        let (out1, val1) = match s1 { Some(Slot::Ok { out, val }) => (out, val), _ => { rep.unjudged += 1; rep.count("unjudged.first-evaluation-not-ok"); continue; } };
                        if kind_of(&val1) != base_kind || out1.is_empty() { rep.unjudged += 1; rep.count("unjudged.value-of-another-kind"); continue; }
                        let (o2, _) = if via_session { w.session_text(ev.actor, &out1, &ev.clock) } else { w.execute(lang, &out1, &ev.clock) };
                        rep.evaluations += 1;
                        rep.judged += 1;
                        rep.count(if matches!(base_kind.as_str(), "date" | "time") { "probe.pairs_clock_dependent" } else { "probe.pairs_clock_free" });
                        let cfgkey = match base_kind.as_str() {
                            "number" => format!("{}", if w.cfg.number_cfg.2 { "rounding-on" } else { "rounding-off" }),
                            "percent" => format!("{}", if w.cfg.percent_cfg.2 { "rounding-on" } else { "rounding-off" }),
                            "money" => format!("{}", if w.cfg.money_cfg.1 { "rounding-on" } else { "rounding-off" }),
                            _ => String::new(),
                        };
                        let ctx = format!("lang {} config dec={:?} thou={:?} number{:?} percent{:?} money{:?}", lang, w.cfg.fmt.dec, w.cfg.fmt.thou, w.cfg.number_cfg, w.cfg.percent_cfg, w.cfg.money_cfg);
                        match &o2 {
                            CallObs::Unwound(p) => rep.violate("O-roundtrip", format!("C15:{}:{}", kind, p.key()), ei, format!("{:?} prints {:?}; typing that back panicked: {} at {}", line, out1, p.msg, p.loc)),
                            CallObs::Returned { lines, .. } => match lines.first().map(|x| &x.slot) {
                                Some(Slot::Ok { out, .. }) if *out == out1 => {}
                                Some(Slot::Ok { out, val }) => {
                                    // class of the disagreement: another kind, another currency, or the same kind printed differently
                                    let class = if kind_of(val) != base_kind { format!("reads-back-as-{}", kind_of(val)) }
                                        else if let (Val::Money { code: c1, .. }, Val::Money { code: c2, .. }) = (&val1, val) { if c1 != c2 { format!("reads-back-as-{}", c2) } else { format!("{}:prints-differently", cfgkey) } }
                                        else if base_kind == "duration" && has_twelve_months_part(&out1, env) { "twelve-months-part".to_string() }
                                        else { format!("{}:prints-differently", cfgkey) };
                                    rep.violate("O-roundtrip", format!("C15:{}:{}", kind, class), ei, format!("{}: {:?} prints {:?}; typing that back prints {:?} ({:?}) (simulated instant {})", ctx, line, out1, out, val, crate::clock::fmt_instant(t)));
                                }
                                other => rep.violate("O-roundtrip", format!("C15:{}:print-not-readable", kind), ei, format!("{}: {:?} prints {:?}; typing that back gives {} (simulated instant {})", ctx, line, out1, other.map(|s| s.short()).unwrap_or_default(), crate::clock::fmt_instant(t))),
                            },
                        }
                    }
                    rep.states.insert(crate::prng::fnv64(format!("{:?}{:?}{:?}{:?}{:?}", w.cfg.fmt, w.cfg.number_cfg, w.cfg.percent_cfg, w.cfg.money_cfg, w.cfg.zone).as_bytes()));
                }
                _ => {}
            }
        }
        if let (Some(a), Some(b)) = (trace.events.first(), trace.events.last()) { rep.sim_span_s = ((b.clock.base() - a.clock.base()) as f64 / 1e9).abs(); }
        rep
    }
}

/// does the printed duration contain a part "12 <month word>"?
fn has_twelve_months_part(out: &str, env: &Env) -> bool {
    let words: Vec<&str> = out.split(' ').collect();
    for w in words.windows(2) {
        if w[0] == "12" && env.data.langs.values().any(|l| l.duration_words.get(w[1]).map(|s| *s == 30 * 86400).unwrap_or(false)) { return true; }
    }
    false
}
