//! C04 — evaluation never changes the calculator; sessions isolate and persist.
//!
//! Simulation: 1..4 clients (one-shot and session style) and an administrator
//! share one long-lived calculator `L`; a seeded scheduler interleaves their
//! calls, the clock advances between calls, sessions are re-used with texts of
//! differing line counts, dropped and recreated; callbacks of registered rules
//! decline or unwind, and the clock source fails inside one-shot evaluations.
//!
//! Oracles:
//!  * O-projection: every client step is also executed on a *replica*
//!    calculator that has seen all administrator calls but only a projection
//!    of the evaluations (a session client's replica sees that client's texts
//!    fed one line at a time; one-shot steps rotate over all replicas).  The
//!    observation on `L` must equal the observation on the replica.
//!  * O-probe (absolute): uniquely named numeric probes bound in a session must
//!    read back their value in every later text of that session, and must not
//!    be visible anywhere else.
//!  * slot count: every line of a newly set text is evaluated exactly once.

use std::collections::{BTreeMap, BTreeSet};

use crate::checks::{Check, Env, RunReport};
use crate::clock::{ClockScript, NS};
use crate::gen::clocks::{advance, base_instant};
use crate::gen::raw::{RawGen, NAME_WORDS};
use crate::lang::{Expr, Lit, NameUse, NumLit, Stmt};
use crate::obs::{CallObs, Slot, Val};
use crate::prng::Rng;
use crate::trace::{AdminOp, Event, InnerStep, Line, Op, ResultSpec, RuleSpec, TextSpec, Trace, TypeItemSpec, ADMIN};
use crate::world::{AdminObs, InnerCall, World};

pub struct C04;

const LANGS: &[&str] = &["en", "en", "en", "en", "tr"];

fn probe_name(i: u32) -> String {
    let a = (b'a' + (i % 26) as u8) as char;
    let b = (b'a' + ((i / 26) % 26) as u8) as char;
    format!("zqprobe{}{}", b, a)
}

pub fn gen_admin(r: &mut Rng, g: &RawGen, rule_counter: &mut u32, allow_unwind: bool) -> AdminOp {
    if r.chance(1, 25) { return AdminOp::SetDateRule { mdy: r.chance(1, 2) }; }
    match r.below(16) {
        0 | 1 | 2 => {
            let name = match r.below(6) {
                0 => "nosuchcoin".to_string(),
                1 => r.pick(&["$", "€", "₺", "dollar", "euro", "tl", "kr"]).to_string(),
                _ => r.pick(&g.rated).to_lowercase(),
            };
            AdminOp::UpdateCurrency { name, rate: (1 + r.below(2_000_000)) as f64 / 1000.0 }
        }
        3 | 4 => AdminOp::SetTimezone { tz: match r.below(5) { 0 => "NOPE".into(), 1 => format!("GMT{}{}", r.pick(&["+", "-"]), r.below(13)), 2 => format!("GMT+{}:{}", r.below(12), r.pick(&["30", "45", "00"])), _ => r.pick(&g.zones).clone() } },
        5 => { let p = *r.pick(&[(",", "."), (".", ","), (".", ""), (",", "")]); AdminOp::SetDecimalSep { s: p.0.into() } }
        6 => { let p = *r.pick(&[".", ",", "", " "]); AdminOp::SetThousandSep { s: p.into() } }
        7 => AdminOp::SetNumberCfg { digits: r.below(10) as u8, remove_zero: r.chance(1, 2), rounding: r.chance(3, 4) },
        8 => AdminOp::SetPercentCfg { digits: r.below(10) as u8, remove_zero: r.chance(1, 2), rounding: r.chance(3, 4) },
        9 => AdminOp::SetMoneyCfg { remove_zero: r.chance(1, 2), rounding: r.chance(3, 4) },
        10 | 11 | 12 => {
            *rule_counter += 1;
            let id = *rule_counter;
            let kw = *r.pick(&["zork", "blip", "quux", "frob"]);
            let (patterns, result) = match r.below(6) {
                // no keyword: two numbers side by side; occurrences overlap ("1 2 3" has two, one token apart)
                5 => (vec!["{NUMBER:a} {NUMBER:b}".to_string()], ResultSpec::NumberTimes { field: if r.chance(1, 2) { "a".into() } else { "b".into() }, k: (2 + r.below(5)) as f64 }),
                0 => (vec![format!("{} {{NUMBER:n}}", kw), format!("{{NUMBER:n}} {}", kw)], ResultSpec::NumberTimes { field: "n".into(), k: (2 + r.below(5)) as f64 }),
                1 => (vec![format!("{} {{TEXT:w}}", kw)], ResultSpec::Number((1000 + r.below(1000)) as f64)),
                2 => (vec![format!("{{MONEY:m}} {}", kw)], ResultSpec::Echo { field: "m".into() }),
                3 => (vec![format!("{{NUMBER:n}} {{TEXT:coin:{}}}", kw)], ResultSpec::Money { amount: (1 + r.below(500)) as f64, code: r.pick(&g.rated).clone() }),
                _ => (vec![format!("{} {{PERCENT:p}} {}", kw, kw)], ResultSpec::DurationSecs(r.below(100000) as i64)),
            };
            AdminOp::AddRule {
                lang: if r.chance(1, 8) { "tr".into() } else { "en".into() },
                rule: RuleSpec { id, name: format!("rule{}", r.below(4)), patterns, result, decline_num: r.below(3) as u32, decline_den: 4, unwind_den: if allow_unwind && r.chance(1, 3) { 5 } else { 0 } },
            }
        }
        13 => AdminOp::DeleteRule { lang: "en".into(), name: format!("rule{}", r.below(4)) },
        14 => AdminOp::AddType { name: format!("fam{}", r.below(3)) },
        _ => {
            let fam = format!("fam{}", r.below(3));
            let idx = 1 + r.below(4) as usize;
            let unit = format!("{}u{}", fam, idx);
            // now and then the item also answers to the name of a built-in unit
            let mut names = vec![unit.clone()];
            if r.chance(1, 3) { names.push(r.pick(&["mile", "meter", "gram", "inch"]).to_string()); }
            AdminOp::AddTypeItem(TypeItemSpec { family: fam, index: idx, format: format!("{{value}} {}", unit), parse: vec![format!("{{NUMBER:value}} {{TEXT:type:{}}}", unit)], upgrade: "{value} / 2".into(), downgrade: "{value} * 2".into(), names })
        }
    }
}

/// a line for the C04 workload: all feature families, plus lines that depend
/// on (shared-pool) variable names, plus lines matching the custom rules
/// operator words of BOTH languages, used regardless of the client's language: a word means an
/// operator in one language and nothing in the other
fn alias_line(r: &mut Rng, g: &RawGen, dec: &str) -> String {
    let w = *r.pick(&["times", "multiply", "divide", "add", "sum", "append", "exclude", "minus", "kere", "carpi", "carp", "ekle", "topla", "toplam", "eksi", "cikar", "cikart", "euro"]);
    format!("{} {} {}", g.number(r, dec), w, g.number(r, dec))
}

pub fn rule_line(r: &mut Rng, g: &RawGen, dec: &str) -> String {
    let kw = *r.pick(&["zork", "blip", "quux", "frob"]);
    match r.below(6) { 5 => format!("{} {} {}{}", r.below(30), r.below(30), r.below(30), if r.chance(1, 2) { format!(" {}", r.below(30)) } else { String::new() }), 0 => format!("{} {}", kw, g.number(r, dec)), 1 => format!("{} {}", g.number(r, dec), kw), 2 => format!("{} {}", kw, r.pick(NAME_WORDS)), 3 => format!("{} {}", g.money(r, dec), kw), _ => format!("{} {}% {}", kw, r.below(100), kw) }
}

fn gen_line(r: &mut Rng, g: &RawGen, lang: &str, dec: &str, rule_heavy: bool, sentinels: &[String]) -> String {
    // the same handful of lines over and over, by every client, all through the history: whatever an
    // evaluation leaves behind in the calculator meets the very line that left it, after later
    // administrator calls
    if !sentinels.is_empty() && r.chance(1, 6) { return r.pick(sentinels).clone(); }
    let name = |r: &mut Rng| -> String { if r.chance(3, 4) { r.pick(&NAME_WORDS[..6]).to_string() } else { g.name(r) } };
    if rule_heavy && r.chance(1, 3) { return rule_line(r, g, dec); }
    match r.below(14) {
        0 | 1 => format!("{} = {}", name(r), g.any_value(r, lang, dec)),
        2 | 3 => format!("{} {} {}", name(r), r.pick(&["+", "-", "*", "/"]), g.any_value(r, lang, dec)),
        4 => name(r),
        5 => format!("{} = {} {} {}", name(r), name(r), r.pick(&["+", "*", "-"]), g.number(r, dec)),
        6 => rule_line(r, g, dec),
        7 if r.chance(1, 3) => {
            // the same (source index, target index, amount) in different families
            let (a, b) = *r.pick(&[("dam", "m"), ("gb", "mb"), ("dag", "g"), ("mile", "furlong"), ("m", "dm"), ("mb", "kb"), ("g", "dg")]);
            format!("{} {} to {}", r.pick(&[1u32, 2, 10]), a, b)
        }
        7 => { let f = r.below(3); match r.below(4) {
            0 => format!("{} fam{}u{} to {}", r.below(64), f, 1 + r.below(4), r.pick(&["mile", "meter", "gram", "inch"])),
            1 => format!("{} {} to {}", 1 + r.below(64), r.pick(&["km", "furlong", "kg", "cm", "yard"]), r.pick(&["mile", "meter", "gram", "inch"])),
            _ => format!("{} fam{}u{} to fam{}u{}", r.below(64), f, 1 + r.below(4), f, 1 + r.below(4)) } }
        8 => g.failing_line(r),
        9 => String::new(),
        10 | 11 => alias_line(r, g, dec),
        _ => g.any_line(r, lang, dec),
    }
}

#[allow(clippy::too_many_arguments)]
fn gen_text(r: &mut Rng, g: &RawGen, lang: &str, dec: &str, max_lines: u64, probes: &mut Vec<(u32, f64)>, probe_counter: &mut u32, may_probe: bool, rule_heavy: bool, sentinels: &[String]) -> TextSpec {
    let n = match r.below(8) { 0 => 0, 1 => 1, _ => 1 + r.below(max_lines) } as usize;
    let mut lines = Vec::new();
    for _ in 0..n {
        if may_probe && r.chance(1, 6) {
            if !probes.is_empty() && r.chance(1, 2) {
                let (id, _) = *r.pick(probes);
                lines.push(Line::Sem(Stmt::Eval(Expr::Var(NameUse { words: vec![probe_name(id)] }))));
            } else {
                *probe_counter += 1;
                let v = (10_000 + *probe_counter * 7 + r.below(5) as u32) as f64;
                probes.push((*probe_counter, v));
                lines.push(Line::Sem(Stmt::Assign { name: NameUse { words: vec![probe_name(*probe_counter)] }, e: Expr::Lit(Lit::Num(NumLit::int(v as i64))) }));
            }
        } else if !lines.is_empty() && r.chance(1, 8) {
            // the same line again, later in the same text
            let again = r.pick(&lines).clone();
            if matches!(again, Line::Raw(_)) { lines.push(again); } else { lines.push(Line::Raw(gen_line(r, g, lang, dec, rule_heavy, sentinels))); }
        } else {
            lines.push(Line::Raw(gen_line(r, g, lang, dec, rule_heavy, sentinels)));
        }
    }
    let crlf = (0..lines.len()).map(|_| r.chance(1, 5)).collect();
    TextSpec { lines, crlf, trailing_nl: r.chance(1, 8) }
}

impl Check for C04 {
    fn id(&self) -> &'static str { "C04" }

    fn rule(&self) -> &'static str {
        "one run = one seeded interleaving of 1..4 clients (one-shot / session) and an administrator on one calculator, clock advancing between calls; non-trivial = at least one judged client step AND at least one fired fault (session swap/recreate, admin mutation between steps, rule decline/unwind, clock source failure, clock advance over midnight); distinct = distinct trace hash"
    }

    fn budget(&self, tier: &str) -> u64 { if tier == "thorough" { 40_000 } else { 3_000 } }

    fn generate(&self, seed: u64, tier: &str, env: &Env) -> Trace {
        let mut r = Rng::new(seed);
        // thorough tier: half of the runs are three times as long (deeper histories)
        let dm: u64 = if tier == "thorough" && seed % 2 == 0 { 3 } else { 1 };
        let g = RawGen::new(&env.data);
        let faults = !r.chance(1, 4); // a quarter of the runs are fault-free (no unwinds, no clock failure)
        let k = 1 + r.below(if dm > 1 { 6 } else { 4 }) as u8;
        let mut t = base_instant(&mut r, &env.host_rule);
        let mut events = Vec::new();
        let mut rule_counter = 0u32;
        let mut probe_counter = 0u32;
        // per client: (is_session, lang, remaining steps, has_session, probes)
        struct Cl { session: bool, lang: String, steps: u64, live: bool, probes: Vec<(u32, f64)> }
        let mut cls: Vec<Cl> = (0..k).map(|_| Cl { session: r.chance(3, 5), lang: r.pick(LANGS).to_string(), steps: (2 + r.below(10)) * dm, live: false, probes: vec![] }).collect();
        let admin_w = *r.pick(&[0u32, 1, 2, 4]);
        let max_lines = *r.pick(&[2u64, 4, 8]);
        let mut dec = ",".to_string();
        // swarm: a third of the runs are rule-heavy (rules registered up front, many matching lines)
        let rule_heavy = r.chance(1, 3);
        // scheduling inside evaluations: how many of ten client steps get other clients' steps
        // scheduled into their callback invocations
        let nest_rate = if rule_heavy { *r.pick(&[0u64, 3, 6]) } else { *r.pick(&[0u64, 0, 0, 2]) };
        if rule_heavy {
            for _ in 0..(2 + r.below(3)) {
                let op = loop { let op = gen_admin(&mut r, &g, &mut rule_counter, faults); if matches!(op, AdminOp::AddRule { .. }) { break op; } };
                events.push(Event { actor: ADMIN, op: Op::Admin(op), clock: ClockScript::Frozen { t } });
            }
        }
        // sentinel lines of this run (integers only, so that separator changes do not alter their meaning)
        let mut sentinels: Vec<String> = {
            let mut v = Vec::new();
            let a = r.pick(&g.rated).to_lowercase();
            let b = r.pick(&g.rated).to_lowercase();
            let c = r.pick(&g.rated).to_lowercase();
            v.push(format!("{} {} + {} {}", 1 + r.below(500), a, 1 + r.below(500), b));
            v.push(format!("{} {} - {} {}", 1000 + r.below(500), b, 1 + r.below(50), a));
            v.push(format!("{} {} to {}", 1 + r.below(500), a, c));
            v.push(format!("{} {} / {} {}", 1 + r.below(500), c, 1 + r.below(50), b));
            v.push(r.pick(&["3 km to m", "2 hours 30 minutes", "11:30 EST to CET", "12 + 30%", "20 times 4", "20 kere 4", "3 zork + 5", "1 jan 2020 + 3 months"]).to_string());
            let k = 2 + r.usize(4);
            v.truncate(k);
            if r.chance(1, 4) { v.clear(); }
            v
        };
        // swarm: a quarter of the runs start with a user family whose items also answer to built-in unit names
        if r.chance(1, 4) {
            let fam = format!("fam{}", r.below(3));
            events.push(Event { actor: ADMIN, op: Op::Admin(AdminOp::AddType { name: fam.clone() }), clock: ClockScript::Frozen { t } });
            for idx in 1..=(2 + r.below(2) as usize) {
                let unit = format!("{}u{}", fam, idx);
                let shared = r.pick(&["mile", "meter", "gram", "inch"]).to_string();
                let src = match shared.as_str() { "mile" => "furlong", "meter" => "km", "gram" => "kg", _ => "yard" };
                if sentinels.len() < 9 {
                    sentinels.push(format!("{} {} to {}", 8 * (1 + r.below(8)), unit, shared));
                    sentinels.push(format!("{} {} to {}", 1 + r.below(40), src, shared));
                }
                events.push(Event { actor: ADMIN, op: Op::Admin(AdminOp::AddTypeItem(TypeItemSpec { family: fam.clone(), index: idx, format: format!("{{value}} {}", unit), parse: vec![format!("{{NUMBER:value}} {{TEXT:type:{}}}", unit)], upgrade: "{value} / 2".into(), downgrade: "{value} * 2".into(), names: vec![unit, shared] })), clock: ClockScript::Frozen { t } });
            }
        }
        let total: u64 = cls.iter().map(|c| c.steps).sum();
        let mut budget = total + 30;
        while cls.iter().any(|c| c.steps > 0) && budget > 0 {
            budget -= 1;
            t = advance(&mut r, t);
            let mut w: Vec<u32> = cls.iter().map(|c| if c.steps > 0 { 3 } else { 0 }).collect();
            w.push(admin_w);
            let who = r.weighted(&w);
            if who == cls.len() {
                let op = gen_admin(&mut r, &g, &mut rule_counter, faults);
                if let AdminOp::SetDecimalSep { s } = &op { dec = s.clone(); }
                if let AdminOp::AddTypeItem(it) = &op {
                    // a user unit that also answers to the name of a built-in unit: from now on every client keeps
                    // converting to that name from the user family AND from a built-in family
                    if it.names.len() > 1 && sentinels.len() < 9 {
                        let shared = it.names[1].clone();
                        // a source unit of the built-in family that owns the shared name
                        let src = match shared.as_str() { "mile" => "furlong", "meter" => "km", "gram" => "kg", _ => "yard" };
                        sentinels.push(format!("{} {} to {}", 8 * (1 + r.below(8)), it.names[0], shared));
                        sentinels.push(format!("{} {} to {}", 1 + r.below(40), src, shared));
                    }
                }
                events.push(Event { actor: ADMIN, op: Op::Admin(op), clock: ClockScript::Frozen { t } });
                continue;
            }
            cls[who].steps -= 1;
            let nest_here = nest_rate > 0 && r.below(10) < nest_rate;
            let (mut op, mut clock) = if cls[who].session {
                let c = &mut cls[who];
                if !c.live || r.chance(1, 10) {
                    c.live = true;
                    c.probes.clear();
                    if r.chance(1, 6) { c.lang = r.pick(LANGS).to_string(); }
                    events.push(Event { actor: who as u8, op: Op::SessionNew { lang: c.lang.clone() }, clock: ClockScript::Frozen { t } });
                }
                else if r.chance(1, 10) {
                    // the live session switches language; its variables (probes) must survive
                    c.lang = r.pick(LANGS).to_string();
                    events.push(Event { actor: who as u8, op: Op::SessionLang { lang: c.lang.clone() }, clock: ClockScript::Frozen { t } });
                }
                let text = gen_text(&mut r, &g, &c.lang, &dec, max_lines, &mut c.probes, &mut probe_counter, true, rule_heavy, &sentinels);
                (Op::SessionText { text }, ClockScript::Frozen { t })
            } else {
                let mut none = vec![];
                let mut text = gen_text(&mut r, &g, &cls[who].lang, &dec, max_lines, &mut none, &mut probe_counter, false, rule_heavy, &sentinels);
                // isolation probes: a one-shot text may try to read a probe bound in some session
                if r.chance(1, 5) {
                    let all: Vec<(u32, f64)> = cls.iter().flat_map(|c| c.probes.iter().cloned()).collect();
                    if !all.is_empty() {
                        let (id, _) = *r.pick(&all);
                        text.lines.push(Line::Sem(Stmt::Eval(Expr::Var(NameUse { words: vec![probe_name(id)] }))));
                        text.crlf.push(false);
                    }
                }
                let clock = if faults && !nest_here && r.chance(1, 12) { ClockScript::Fail { t, at_read: r.below(4) as u32 } } else { ClockScript::Frozen { t } };
                let lang = if r.chance(1, 30) { "xx".to_string() } else { cls[who].lang.clone() };
                (Op::Execute { lang, text }, clock)
            };
            if nest_here {
                // the outer text gets lines that reach a callback, with state- and clock-dependent lines around them
                if let Op::Execute { text, .. } | Op::SessionText { text } = &mut op {
                    for _ in 0..(1 + r.below(2)) {
                        let at = r.usize(text.lines.len() + 1);
                        text.lines.insert(at, Line::Raw(rule_line(&mut r, &g, &dec)));
                        text.crlf.insert(at.min(text.crlf.len()), false);
                    }
                    if r.chance(1, 2) { text.lines.push(Line::Raw(r.pick(&["today", "tomorrow", "11:30", "today + 3 days", "12 january", "yesterday to today"]).to_string())); text.crlf.push(false); }
                }
                let mut inner = Vec::new();
                let mut taken: Vec<usize> = vec![who];
                for _ in 0..(1 + r.below(2)) {
                    let others: Vec<usize> = (0..cls.len()).filter(|i| !taken.contains(i) && cls[*i].session && cls[*i].steps > 0).collect();
                    let dt: i128 = match r.below(6) {
                        0 | 1 => 0,
                        2 => NS,
                        3 => 3600 * NS,
                        // just over the next midnight
                        4 => (86400 * NS - t.rem_euclid(86400 * NS)) + NS,
                        _ => 366 * 86400 * NS,
                    };
                    let dt = crate::gen::clocks::clamp_instant(t + dt) - t;
                    let at_call = 1 + r.below(3) as u32;
                    if !others.is_empty() && r.chance(1, 2) {
                        let o = *r.pick(&others);
                        taken.push(o);
                        let c2 = &mut cls[o];
                        c2.steps -= 1;
                        if !c2.live {
                            c2.live = true;
                            c2.probes.clear();
                            events.push(Event { actor: o as u8, op: Op::SessionNew { lang: c2.lang.clone() }, clock: ClockScript::Frozen { t } });
                        }
                        let text = gen_text(&mut r, &g, &c2.lang, &dec, max_lines, &mut c2.probes, &mut probe_counter, true, rule_heavy, &sentinels);
                        inner.push(InnerStep { at_call, actor: o as u8, session: true, lang: c2.lang.clone(), text, dt });
                    } else {
                        let mut none = vec![];
                        let lang = r.pick(LANGS).to_string();
                        let mut text = gen_text(&mut r, &g, &lang, &dec, max_lines, &mut none, &mut probe_counter, false, rule_heavy, &sentinels);
                        if r.chance(1, 4) {
                            let all: Vec<(u32, f64)> = cls.iter().flat_map(|c| c.probes.iter().cloned()).collect();
                            if !all.is_empty() {
                                let (id, _) = *r.pick(&all);
                                text.lines.push(Line::Sem(Stmt::Eval(Expr::Var(NameUse { words: vec![probe_name(id)] }))));
                                text.crlf.push(false);
                            }
                        }
                        inner.push(InnerStep { at_call, actor: 100 + r.below(2) as u8, session: false, lang, text, dt });
                    }
                }
                if r.chance(1, 2) { clock = ClockScript::Tick { start: t, step: *r.pick(&[1i128, NS, 86400 * NS]) }; }
                op = Op::Nested { outer: Box::new(op), inner };
            }
            events.push(Event { actor: who as u8, op, clock });
        }
        crate::gen::session_variants(&mut r, &mut events, 3, 8, 6);
        Trace { check: "C04".into(), seed, host_tz: env.host_tz.clone(), salt: r.next(), mode: format!("{}{}", if faults { "faults" } else { "fault-free" }, if nest_rate > 0 { "+nested" } else { "" }), events }
    }

    fn execute(&self, trace: &Trace, env: &Env) -> RunReport {
        let mut rep = RunReport::default();
        let t0 = trace.events.first().map(|e| e.clock.base()).unwrap_or(NS);
        let mut l = World::new(&env.data, trace.salt, t0);
        l.explain = env.explain;
        // replicas: one per client, plus a spare so that there are at least two
        let mut ids: BTreeSet<u8> = BTreeSet::new();
        for e in trace.events.iter() {
            if e.actor != ADMIN { ids.insert(e.actor); }
            if let Op::Nested { inner, .. } = &e.op { for i in inner { ids.insert(i.actor); } }
        }
        let mut spare = 200u8;
        while ids.len() < 2 { ids.insert(spare); spare += 1; }
        let ids: Vec<u8> = ids.into_iter().collect();
        let reps: BTreeMap<u8, World> = ids.iter().map(|id| (*id, World::new(&env.data, trace.salt, t0))).collect();
        let mut x = Exec { l, reps, ids, oneshot_rr: 0, bound: BTreeMap::new(), maybe_bound: BTreeMap::new(), last_lines: BTreeMap::new() };
        let mut last_t = t0;

        for (ei, ev) in trace.events.iter().enumerate() {
            let t = ev.clock.base();
            if t.div_euclid(86400 * NS) != last_t.div_euclid(86400 * NS) { rep.count("clock.advance_over_midnight"); }
            if t > last_t { rep.count("clock.advance_between_ops"); } else if t < last_t { rep.count("clock.step_back_between_ops"); }
            last_t = t;
            match &ev.op {
                Op::Admin(op) => {
                    let o = x.l.admin(op, &ev.clock);
                    let _ = x.l.cfg.apply(&env.data, op);
                    rep.mix_obs(&format!("{:?}", o));
                    let accepted = matches!(o, AdminObs::Unit | AdminObs::Bool(true) | AdminObs::Res(Ok(())));
                    rep.count(if accepted { op.kind() } else { "admin.rejected" });
                    for (id, w) in x.reps.iter_mut() {
                        let o2 = w.admin(op, &ev.clock);
                        let _ = w.cfg.apply(&env.data, op);
                        if o2 != o {
                            rep.violate("O-projection", format!("admin-result-differs:{}", op.kind()), ei, format!("admin call {:?} returned {:?} on the long-lived calculator but {:?} on replica {} that saw fewer evaluations", op, o, o2, id));
                        }
                    }
                }
                Op::Checkpoint { .. } => {}
                Op::SessionLang { lang } => {
                    if x.l.sessions.contains_key(&ev.actor) {
                        x.l.session_set_language(ev.actor, lang);
                        x.reps.get_mut(&ev.actor).unwrap().session_set_language(ev.actor, lang);
                        rep.count("session.language_switch");
                    }
                }
                Op::SessionFormat => {
                    // the public formatter applied to the values of the last result, between two texts
                    if !x.l.sessions.contains_key(&ev.actor) { continue; }
                    let a = x.l.session_format(ev.actor, &ev.clock);
                    let b = x.reps.get(&ev.actor).unwrap().session_format(ev.actor, &ClockScript::Frozen { t });
                    rep.count("session.format_result_between_texts");
                    rep.judged += 1;
                    rep.mix_obs(&format!("{:?}", a));
                    if a != b {
                        rep.violate("O-projection", "format-result-differs".into(), ei, format!("format_result over the session's last values gave {:?} on the long-lived calculator/session but {:?} on the client's replica", a, b));
                    }
                }
                Op::SessionRerun => {
                    // once more without a new text; defined for a one-line text (it is evaluated again)
                    if !x.last_lines.contains_key(&ev.actor) && x.l.sessions.contains_key(&ev.actor) {
                        // before any text was set
                        let (o, _) = x.l.session_rerun(ev.actor, &ev.clock);
                        let (o2, _) = x.reps.get_mut(&ev.actor).unwrap().session_rerun(ev.actor, &ClockScript::Frozen { t });
                        rep.count("session.evaluated_before_any_text");
                        rep.judged += 1;
                        if o != o2 { rep.violate("O-projection", format!("session-rerun-differs:{}", diff_kind(&o, &o2)), ei, format!("evaluating a session that has no text yet gave {} on the long-lived calculator but {} on the replica", o.short(), o2.short())); }
                        continue;
                    }
                    if x.last_lines.get(&ev.actor) != Some(&1) || !x.l.sessions.contains_key(&ev.actor) { continue; }
                    let calls_before = x.l.log.borrow().len();
                    let (o, clk) = x.l.session_rerun(ev.actor, &ev.clock);
                    rep.evaluations += 1;
                    rep.clock_reads += clk.values.len() as u64;
                    rep.mix_obs(&o.short());
                    count_rule_faults(&mut rep, &x.l, calls_before);
                    rep.count("session.rerun_without_new_text");
                    let w = x.reps.get_mut(&ev.actor).unwrap();
                    let (o2, _) = w.session_rerun(ev.actor, &ClockScript::Frozen { t });
                    w.last_asts.remove(&ev.actor);
                    x.l.last_asts.remove(&ev.actor);
                    rep.judged += 1;
                    if o != o2 {
                        rep.violate("O-projection", format!("session-rerun-differs:{}", diff_kind(&o, &o2)), ei, format!("evaluating the session again without a new text gave {} on the long-lived calculator/session but {} on the client's replica", o.short(), o2.short()));
                    }
                }
                Op::SessionNew { lang } => {
                    if x.l.sessions.contains_key(&ev.actor) { rep.count("session.drop_recreate"); }
                    x.l.session_new(ev.actor, lang);
                    x.reps.get_mut(&ev.actor).unwrap().session_new(ev.actor, lang);
                    x.bound.insert(ev.actor, BTreeMap::new());
                    x.maybe_bound.remove(&ev.actor);
                    x.last_lines.remove(&ev.actor);
                }
                Op::Execute { lang, text } => {
                    let rendered = x.l.render(text);
                    let full = text.assemble(&rendered);
                    let calls_before = x.l.log.borrow().len();
                    let (o, clk) = x.l.execute(lang, &full, &ev.clock);
                    rep.evaluations += 1;
                    rep.clock_reads += clk.values.len() as u64;
                    count_rule_faults(&mut rep, &x.l, calls_before);
                    x.judge_oneshot(&mut rep, ei, lang, text, &rendered, &full, &o, t, matches!(ev.clock, ClockScript::Fail { .. }), "");
                }
                Op::SessionText { text } => {
                    x.ensure_session(ev.actor);
                    let rendered = x.l.render(text);
                    let full = text.assemble(&rendered);
                    x.count_swap(&mut rep, ev.actor, text.expected_slots(&rendered));
                    let calls_before = x.l.log.borrow().len();
                    let (o, clk) = x.l.session_text(ev.actor, &full, &ev.clock);
                    rep.evaluations += 1;
                    rep.clock_reads += clk.values.len() as u64;
                    count_rule_faults(&mut rep, &x.l, calls_before);
                    x.judge_session(&mut rep, ei, ev.actor, text, &rendered, &full, &o, t, "");
                }
                Op::Nested { outer, inner } => {
                    // the outer call, with other clients' steps scheduled inside its callback invocations
                    let (outer_session, lang, text): (Option<u8>, String, &TextSpec) = match &**outer {
                        Op::Execute { lang, text } => (None, lang.clone(), text),
                        Op::SessionText { text } => { x.ensure_session(ev.actor); (Some(ev.actor), String::new(), text) }
                        _ => continue,
                    };
                    let rendered = x.l.render(text);
                    let full = text.assemble(&rendered);
                    if outer_session.is_some() { x.count_swap(&mut rep, ev.actor, text.expected_slots(&rendered)); }
                    // inner steps: a session may take part once, and never the session that is being evaluated
                    let mut used: BTreeSet<u8> = BTreeSet::new();
                    if outer_session.is_some() { used.insert(ev.actor); }
                    let mut calls: Vec<InnerCall> = Vec::new();
                    let mut specs: BTreeMap<usize, (Vec<String>, String)> = BTreeMap::new();
                    for (idx, st) in inner.iter().enumerate() {
                        if st.session { if !used.insert(st.actor) { continue; } x.ensure_session(st.actor); }
                        let r2 = x.l.render(&st.text);
                        let f2 = st.text.assemble(&r2);
                        if st.session { x.count_swap(&mut rep, st.actor, st.text.expected_slots(&r2)); }
                        calls.push(InnerCall { idx, at_call: st.at_call, actor: st.actor, session: st.session, lang: st.lang.clone(), text: f2.clone(), t: t + st.dt });
                        specs.insert(idx, (r2, f2));
                    }
                    let calls_before = x.l.log.borrow().len();
                    let (o, clk, results) = x.l.run_nested(outer_session, &lang, &full, &ev.clock, calls);
                    rep.evaluations += 1 + results.len() as u64;
                    rep.clock_reads += clk.values.len() as u64 + results.iter().map(|r| r.reads as u64).sum::<u64>();
                    count_rule_faults(&mut rep, &x.l, calls_before);
                    if !ev.clock.is_frozen() && clk.distinct_values().len() > 1 { rep.count("clock.tick_in_op"); }
                    let fired = results.iter().filter(|r| r.fired_in_call.is_some()).count();
                    let tag = if fired > 0 { "nested-" } else { "" };
                    match outer_session {
                        None => x.judge_oneshot(&mut rep, ei, &lang, text, &rendered, &full, &o, t, false, tag),
                        Some(a) => x.judge_session(&mut rep, ei, a, text, &rendered, &full, &o, t, tag),
                    }
                    for r in results.iter() {
                        let st = &inner[r.idx];
                        let (r2, f2) = &specs[&r.idx];
                        match r.fired_in_call {
                            Some(c) => { rep.count("sched.step_inside_callback"); rep.count(&format!("probe.nested_at_call_{}", c.min(4))); if st.dt != 0 { rep.count("sched.inner_sees_other_instant"); } }
                            None => rep.count("probe.nested_not_reached"),
                        }
                        let tag = if r.fired_in_call.is_some() { "inner-" } else { "" };
                        if st.session { x.judge_session(&mut rep, ei, st.actor, &st.text, r2, f2, &r.obs, t + st.dt, tag); }
                        else { x.judge_oneshot(&mut rep, ei, &st.lang, &st.text, r2, f2, &r.obs, t + st.dt, false, tag); }
                    }
                    // the values of results obtained in nested steps are not kept for format_result
                    for a in used.iter() { x.l.last_asts.remove(a); if let Some(w) = x.reps.get_mut(a) { w.last_asts.remove(a); } }
                }
            }
            rep.states.insert(state_hash(&x.l, &x.bound));
        }
        if let (Some(a), Some(b)) = (trace.events.first(), trace.events.last()) {
            rep.sim_span_s = (b.clock.base() - a.clock.base()) as f64 / 1e9;
        }
        rep
    }
}

/// executor state: the long-lived calculator, the replicas and the probe bookkeeping
struct Exec {
    l: World,
    reps: BTreeMap<u8, World>,
    ids: Vec<u8>,
    oneshot_rr: usize,
    /// probes bound per live session (client -> name -> value)
    bound: BTreeMap<u8, BTreeMap<String, f64>>,
    /// probe names that occurred in an ASSIGNMENT line of any text given to the session, whatever became of
    /// that evaluation (an unwound step may have bound them before it was lost)
    maybe_bound: BTreeMap<u8, BTreeSet<String>>,
    last_lines: BTreeMap<u8, usize>,
}

impl Exec {
    fn ensure_session(&mut self, actor: u8) {
        if !self.l.sessions.contains_key(&actor) {
            // shrinking may have removed the SessionNew; treat as implicit
            self.l.session_new(actor, "en");
            self.reps.get_mut(&actor).unwrap().session_new(actor, "en");
            self.bound.insert(actor, BTreeMap::new());
        }
    }

    fn count_swap(&mut self, rep: &mut RunReport, actor: u8, want: usize) {
        match self.last_lines.get(&actor) {
            Some(p) if *p > want => rep.count("session.swap_shrink"),
            Some(p) if *p < want => rep.count("session.swap_grow"),
            Some(_) => rep.count("session.swap_same"),
            None => {}
        }
        self.last_lines.insert(actor, want);
    }

    /// `o`: what the one-shot evaluation of `full` gave on the long-lived calculator at instant `t`
    #[allow(clippy::too_many_arguments)]
    fn judge_oneshot(&mut self, rep: &mut RunReport, ei: usize, lang: &str, text: &TextSpec, rendered: &[String], full: &str, o: &CallObs, t: i128, clock_fails: bool, tag: &str) {
        rep.mix_obs(&o.short());
        if lang != "en" { rep.count(if lang == "tr" { "lang.other" } else { "lang.unknown" }); }
        let unwound_by_fault = match o {
            CallObs::Unwound(p) => p.msg.contains("SIMRULE-UNWIND") || clock_fails,
            _ => false,
        };
        if unwound_by_fault {
            // the step unwound because of an injected fault: it is skipped on the
            // replica; everything afterwards must still agree
            rep.count(if clock_fails { "clock.source_failure" } else { "rule.unwind" });
            rep.unjudged += 1;
            // residue probes: whatever the lost evaluation had bound before it unwound must not be visible to a
            // later one-shot evaluation - the names left of its '=' signs, evaluated as one-shot texts, read the
            // same on the long-lived calculator as on a replica that never saw the lost text
            let mut asked = 0;
            for line in rendered.iter() {
                if asked >= 3 { break; }
                let lhs = match line.split_once('=') { Some((l, _)) => l.trim(), None => continue };
                if lhs.is_empty() || lhs.len() > 60 { continue; }
                asked += 1;
                let (a, _) = self.l.execute(lang, lhs, &ClockScript::Frozen { t });
                let rid = self.ids[self.oneshot_rr % self.ids.len()];
                let (b, _) = self.reps.get_mut(&rid).unwrap().execute(lang, lhs, &ClockScript::Frozen { t });
                rep.evaluations += 2;
                if matches!(a, CallObs::Unwound(_)) || matches!(b, CallObs::Unwound(_)) { rep.unjudged += 1; continue; }
                rep.judged += 1;
                rep.count("probe.residue_after_unwound_oneshot");
                if a != b {
                    rep.violate("O-projection", format!("{}residue-after-unwound-oneshot", tag), ei, format!("after the one-shot text {:?} was lost to an injected unwind, the one-shot text {:?} gives {} on the long-lived calculator but {} on replica {} which never saw the lost text", full, lhs, a.short(), b.short(), rid));
                }
            }
            return;
        }
        let rid = self.ids[self.oneshot_rr % self.ids.len()];
        self.oneshot_rr += 1;
        let w = self.reps.get_mut(&rid).unwrap();
        // the replica evaluates under a frozen clock at the same instant (a Fail script
        // that did not fire behaves as frozen)
        let (o2, _) = w.execute(lang, full, &ClockScript::Frozen { t });
        rep.judged += 1;
        if *o != o2 {
            rep.violate("O-projection", format!("{}oneshot-differs:{}", tag, diff_kind(o, &o2)), ei, format!("one-shot text {:?} (lang {}) gave {} on the long-lived calculator{} but {} on replica {} with a different evaluation history", full, lang, o.short(), describe(tag), o2.short(), rid));
        }
        if let Some(n) = o.lines().map(|x| x.len()) {
            let want = text.expected_slots(rendered);
            if n != want { rep.violate("O-slots", format!("{}oneshot-slot-count", tag), ei, format!("text {:?} has {} lines but {} result slots", full, want, n)); }
        }
        // isolation: no probe bound in any session may be visible to a one-shot evaluation
        check_probes(rep, ei, text, o, &BTreeMap::new(), &self.bound, "one-shot");
    }

    #[allow(clippy::too_many_arguments)]
    fn judge_session(&mut self, rep: &mut RunReport, ei: usize, actor: u8, text: &TextSpec, rendered: &[String], full: &str, o: &CallObs, t: i128, tag: &str) {
        rep.mix_obs(&o.short());
        let want = text.expected_slots(rendered);
        let w = self.reps.get_mut(&actor).unwrap();
        w.allow_unwind = true;
        let o2 = w.session_text_linewise(actor, full, &ClockScript::Frozen { t });
        if matches!(o, CallObs::Unwound(_)) || matches!(o2, CallObs::Unwound(_)) {
            // an unwound step leaves no result whose values could be formatted
            w.last_asts.remove(&actor);
            self.l.last_asts.remove(&actor);
        }
        rep.judged += 1;
        if *o != o2 {
            rep.violate("O-projection", format!("{}session-differs:{}", tag, diff_kind(o, &o2)), ei, format!("session text {:?} gave {} on the long-lived calculator/session{} but {} on the client's replica fed line by line", full, o.short(), describe(tag), o2.short()));
        }
        match o {
            CallObs::Returned { status, lines } => {
                if !*status || lines.len() != want {
                    rep.violate("O-slots", format!("{}session-slot-count", tag), ei, format!("new text {:?} has {} lines but status={} with {} result slots", full, want, status, lines.len()));
                }
            }
            CallObs::Unwound(_) => {}
        }
        // persistence and isolation of probes
        let mine = self.bound.get(&actor).cloned().unwrap_or_default();
        for l in text.lines.iter() { if let Line::Sem(Stmt::Assign { name, .. }) = l { self.maybe_bound.entry(actor).or_default().insert(name.key()); } }
        // a probe this session may have bound itself in a step that was lost is no evidence of a leak
        let others: BTreeMap<u8, BTreeMap<String, f64>> = { let own = self.maybe_bound.get(&actor).cloned().unwrap_or_default(); self.bound.iter().map(|(a, m)| (*a, m.iter().filter(|(k, _)| !own.contains(*k)).map(|(k, v)| (k.clone(), *v)).collect())).collect() };
        let newly = check_probes(rep, ei, text, o, &mine, &others, "session");
        if let Some(m) = self.bound.get_mut(&actor) { m.extend(newly); }
    }
}

fn describe(tag: &str) -> &'static str {
    match tag {
        "nested-" => " (while other clients' steps ran inside its callback invocations)",
        "inner-" => " (evaluated inside a callback invocation of another evaluation in progress)",
        _ => "",
    }
}

fn count_rule_faults(rep: &mut RunReport, l: &World, from: usize) {
    for rec in l.log.borrow()[from..].iter() {
        match rec.decision {
            crate::rules::Decision::Decline => rep.count("rule.decline"),
            crate::rules::Decision::Accept => rep.count("probe.rule_accept"),
            crate::rules::Decision::Unwind => {}
        }
    }
}

fn diff_kind(a: &CallObs, b: &CallObs) -> &'static str {
    match (a, b) {
        (CallObs::Unwound(_), CallObs::Returned { .. }) => "unwound-vs-returned",
        (CallObs::Returned { .. }, CallObs::Unwound(_)) => "returned-vs-unwound",
        (CallObs::Unwound(_), CallObs::Unwound(_)) => "panic-differs",
        (CallObs::Returned { status: s1, lines: l1 }, CallObs::Returned { status: s2, lines: l2 }) => {
            if s1 != s2 { return "status"; }
            if l1.len() != l2.len() { return "slot-count"; }
            for (x, y) in l1.iter().zip(l2.iter()) {
                if x.slot != y.slot {
                    return match (&x.slot, &y.slot) {
                        (Slot::Ok { .. }, Slot::Ok { .. }) => "value",
                        (Slot::Ok { .. }, _) | (_, Slot::Ok { .. }) => "ok-vs-not",
                        _ => "error-text",
                    };
                }
                if x.ui != y.ui { return "highlight"; }
                if x.toks != y.toks { return "tokens"; }
            }
            "other"
        }
    }
}

/// Returns probes newly bound by this text.  `mine`: probes already bound in
/// this session; `all`: probes bound in any live session.
fn check_probes(rep: &mut RunReport, ei: usize, text: &TextSpec, o: &CallObs, mine: &BTreeMap<String, f64>, all: &BTreeMap<u8, BTreeMap<String, f64>>, who: &str) -> BTreeMap<String, f64> {
    let mut newly = BTreeMap::new();
    let lines = match o.lines() { Some(l) => l, None => return newly };
    // slot index of spec line i == i as long as no raw line contains a separator (generator guarantees)
    for (i, line) in text.lines.iter().enumerate() {
        let slot = match lines.get(i) { Some(s) => &s.slot, None => continue };
        match line {
            Line::Sem(Stmt::Assign { name, e: Expr::Lit(Lit::Num(n)) }) => {
                let v = n.value();
                match slot.val() {
                    Some(Val::Num { v: got, .. }) if got.0 == v => { newly.insert(name.key(), v); }
                    _ => rep.violate("O-probe", "probe-bind-failed".into(), ei, format!("{} line {:?} = {} evaluated to {}", who, name.key(), v, slot.short())),
                }
                rep.judged += 1;
            }
            Line::Sem(Stmt::Eval(Expr::Var(name))) => {
                let key = name.key();
                let expected = mine.get(&key).or_else(|| newly.get(&key));
                let observed = match slot.val() { Some(Val::Num { v, .. }) => Some(v.0), _ => None };
                rep.judged += 1;
                match expected {
                    Some(v) => {
                        rep.count("probe.persist_read");
                        if observed != Some(*v) {
                            rep.violate("O-probe", "probe-lost".into(), ei, format!("{}: probe {:?} was bound to {} earlier in this session but now reads {}", who, key, v, slot.short()));
                        }
                    }
                    None => {
                        rep.count("probe.isolation_read");
                        // bound elsewhere (or nowhere): must not produce that value
                        let foreign: Vec<f64> = all.values().filter_map(|m| m.get(&key).cloned()).collect();
                        if let Some(obs) = observed {
                            if foreign.contains(&obs) {
                                rep.violate("O-probe", "probe-leaked".into(), ei, format!("{}: probe {:?} bound only in another session reads {} here", who, key, obs));
                            }
                        }
                    }
                }
            }
            _ => {}
        }
    }
    newly
}

fn state_hash(l: &World, bound: &BTreeMap<u8, BTreeMap<String, f64>>) -> u64 {
    let mut s = String::new();
    s.push_str(&format!("{:?}|{:?}|{}|", l.cfg.fmt, l.cfg.zone, l.cfg.rules.values().map(|v| v.len()).sum::<usize>()));
    s.push_str(&format!("{:?}|{:?}|{:?}|", l.cfg.number_cfg, l.cfg.families.keys().collect::<Vec<_>>(), l.sessions.keys().collect::<Vec<_>>()));
    for (c, m) in bound { s.push_str(&format!("{}:{};", c, m.len())); }
    crate::prng::fnv64(s.as_bytes())
}
