//! Check infrastructure: a check turns a seed into a trace (generator) and a
//! trace into verdicts (executor + oracle).  The executor never draws from a
//! PRNG and never sees real time.

use std::collections::{BTreeMap, BTreeSet};

use serde::{Deserialize, Serialize};

use crate::cfgdata::CfgData;
use crate::gen::clocks::{host_rule, HostRule};
use crate::trace::Trace;

pub mod c01;
pub mod c03;
pub mod c04;
pub mod c06;
pub mod c09;
pub mod c11;
pub mod c14;
pub mod c15;
pub mod sem;
pub mod c18;

#[derive(Debug, Clone, PartialEq, Serialize, Deserialize)]
pub struct Violation {
    /// which oracle fired (e.g. "O-projection")
    pub oracle: String,
    /// class key: identifies the failing shape / call site (known findings
    /// and minimisation use it; it must not contain run-specific values)
    pub key: String,
    /// index of the event at which it was detected
    pub event: usize,
    pub detail: String,
}

#[derive(Debug, Clone, Default, Serialize, Deserialize)]
pub struct RunReport {
    pub violations: Vec<Violation>,
    /// fault kinds that actually fired, judged/unjudged steps, probes
    pub counters: BTreeMap<String, u64>,
    pub judged: u64,
    pub unjudged: u64,
    pub clock_reads: u64,
    pub evaluations: u64,
    /// simulated seconds between first and last event
    pub sim_span_s: f64,
    /// hashes of model states visited
    pub states: BTreeSet<u64>,
    /// hash over every observation made (determinism guard)
    pub obs_hash: u64,
}

impl RunReport {
    pub fn count(&mut self, k: &str) {
        *self.counters.entry(k.to_string()).or_insert(0) += 1;
    }
    pub fn add(&mut self, k: &str, n: u64) {
        *self.counters.entry(k.to_string()).or_insert(0) += n;
    }
    pub fn violate(&mut self, oracle: &str, key: String, event: usize, detail: String) {
        // one report per key and run is enough
        if self.violations.iter().any(|v| v.key == key) { return; }
        self.violations.push(Violation { oracle: oracle.to_string(), key, event, detail });
    }
    pub fn mix_obs(&mut self, s: &str) {
        self.obs_hash = self.obs_hash.rotate_left(5) ^ crate::prng::fnv64(s.as_bytes());
    }
    pub fn fired_faults(&self) -> u64 {
        self.counters.iter().filter(|(k, _)| k.contains('.')).map(|(_, v)| *v).sum()
    }
}

pub struct Env {
    pub data: CfgData,
    pub host_tz: String,
    pub host_rule: Option<HostRule>,
    pub explain: bool,
}

impl Env {
    pub fn new() -> Env {
        let host_tz = std::env::var("TZ").unwrap_or_default();
        Env { data: CfgData::load(), host_rule: host_rule(&host_tz), host_tz, explain: false }
    }
}

pub trait Check {
    fn id(&self) -> &'static str;
    /// pure function of (seed, tier, env.host_tz)
    fn generate(&self, seed: u64, tier: &str, env: &Env) -> Trace;
    /// deterministic function of the trace (and the code under test)
    fn execute(&self, trace: &Trace, env: &Env) -> RunReport;
    /// one-line description of how cases are generated and what counts as non-trivial
    fn rule(&self) -> &'static str;
    /// runs per tier
    fn budget(&self, tier: &str) -> u64;
}

pub fn get(id: &str) -> Option<Box<dyn Check>> {
    match id {
        "C01" => Some(Box::new(c01::C01)),
        "C03" => Some(Box::new(c03::C03)),
        "C04" => Some(Box::new(c04::C04)),
        "C06" => Some(Box::new(c06::C06)),
        "C09" => Some(Box::new(c09::C09)),
        "C11" => Some(Box::new(c11::C11)),
        "C14" => Some(Box::new(c14::C14)),
        "C15" => Some(Box::new(c15::C15)),
        "C18" => Some(Box::new(c18::C18)),
        _ => None,
    }
}

pub const ALL: &[&str] = &["C01", "C03", "C04", "C06", "C09", "C11", "C14", "C15", "C18"];
