//! C09 — dates are read as calendar dates and date arithmetic is calendar
//! arithmetic.
//!
//! What the simulator owns here is the *instant*: "today / tomorrow /
//! yesterday", the default year of a year-less date and the year elision when
//! printing all read the wall clock, separately.  Runs place the simulated
//! clock on a boundary-biased mixture of instants (last/first seconds of days,
//! months, years, leap days, any year 1970..9998), advance it between steps,
//! and - for one-shot steps - move it INSIDE the evaluation (tick per read,
//! cross a day/month/year boundary between read i-1 and i for every i, step
//! backwards).  Oracles: calendar model with the simulated date as "today";
//! clock atomicity (the result under a moving clock must equal the result with
//! the clock frozen at one of the values it returned).

use crate::checks::sem::{run_semantic, SemOpts};
use crate::checks::{Check, Env, RunReport};
use crate::clock::{days_in_month, ClockScript};
use crate::gen::clocks::{advance, base_instant, moving_script};
use crate::gen::sem::SemGen;
use crate::lang::*;
use crate::prng::Rng;
use crate::trace::{AdminOp, Event, Line, Op, TextSpec, Trace, ADMIN};

pub struct C09;

fn date_expr(r: &mut Rng, g: &SemGen, lang: &str, allow_rel: bool) -> Expr {
    if allow_rel && r.chance(1, 4) { return Expr::Lit(g.rel_day(r, lang)); }
    if r.chance(1, 14) {
        // 28/29 February and 1 March of century years (1900 and 2100 are not leap years, 2000 and 2400 are)
        let y = *r.pick(&[1700i64, 1800, 1900, 2000, 2100, 2200, 2300, 2400, 1600]);
        let (m, d) = *r.pick(&[(2u32, 29u32), (2, 29), (2, 28), (3, 1)]);
        return Expr::Lit(Lit::Date(g.date_lit(r, lang, y, m, d, false)));
    }
    let y = match r.below(8) { 0 => 1 + r.below(9999) as i64, 1 => *r.pick(&[2000, 2024, 1900, 2100, 2400]), _ => 1900 + r.below(300) as i64 };
    let m = 1 + r.below(12) as u32;
    let d = match r.below(6) { 0 => days_in_month(y, m), 1 => 1, 2 => 28.min(days_in_month(y, m)), _ => 1 + r.below(days_in_month(y, m) as u64) as u32 };
    Expr::Lit(Lit::Date(g.date_lit(r, lang, y, m, d, true)))
}

fn impossible_date(r: &mut Rng, g: &SemGen, lang: &str) -> Expr {
    let y = 1900 + r.below(300) as i64;
    let (m, d) = match r.below(5) {
        0 => (2, 30),
        1 => (2, if crate::clock::is_leap(y) { 30 } else { 29 }),
        2 => (*r.pick(&[4u32, 6, 9, 11]), 31),
        3 => (1 + r.below(12) as u32, 32 + r.below(10) as u32),
        _ => (1 + r.below(12) as u32, 0),
    };
    let mut dl = g.date_lit(r, lang, y, m, d, false);
    if r.chance(1, 4) { dl.m = 13 + r.below(5) as u32; dl.form = DateForm::Slash; }
    Expr::Lit(Lit::Date(dl))
}

fn gen_line(r: &mut Rng, g: &SemGen, lang: &str) -> Stmt {
    let b = Box::new;
    Stmt::Eval(match r.below(12) {
        0 | 1 => date_expr(r, g, lang, true),
        2 => impossible_date(r, g, lang),
        3 | 4 => Expr::Bin { l: b(date_expr(r, g, lang, true)), op: *r.pick(&['+', '-']), r: b(Expr::Lit(g.dur_days(r, lang, 29))), tight: false },
        5 => Expr::Bin { l: b(date_expr(r, g, lang, true)), op: *r.pick(&['+', '-']), r: b(Expr::Lit(g.dur_days(r, lang, 800))), tight: false },
        6 | 7 => Expr::Bin { l: b(date_expr(r, g, lang, true)), op: *r.pick(&['+', '-']), r: b(Expr::Lit(g.dur_months(r, lang))), tight: false },
        8 | 9 if lang == "en" => Expr::Between { a: b(date_expr(r, g, lang, true)), b: b(date_expr(r, g, lang, true)) },
        11 if r.chance(1, 2) => {
            // the 29th (or 30th/31st) plus or minus whole months, landing in a February: the day exists only in a leap year
            let ty = *r.pick(&[2000i64, 2004, 2020, 2024, 2028, 2400, 1996, 2023, 1900, 2100]);
            let n = 1 + r.below(26) as i64;
            let fwd = r.chance(2, 3);
            // source month index (months since year 0) such that source +/- n = February of ty
            let target = ty * 12 + 1;
            let src = if fwd { target - n } else { target + n };
            let (sy, sm) = (src.div_euclid(12), (src.rem_euclid(12) + 1) as u32);
            let d = (*r.pick(&[29u32, 29, 29, 30, 28])).min(days_in_month(sy, sm));
            let dur = if n % 12 == 0 && r.chance(1, 2) { let c = n / 12; Lit::Dur(vec![(c, g.dur_word(r, lang, 365 * 86400, c != 1), 365 * 86400)]) } else { Lit::Dur(vec![(n, g.dur_word(r, lang, 30 * 86400, n != 1), 30 * 86400)]) };
            Expr::Bin { l: b(Expr::Lit(Lit::Date(g.date_lit(r, lang, sy, sm, d, false)))), op: if fwd { '+' } else { '-' }, r: b(Expr::Lit(dur)), tight: false }
        }
        10 if lang == "en" => { // today / tomorrow / yesterday are consecutive
            let words = &g.data.langs["en"].today_words;
            let pick = |k: i64| -> Lit { let w = words.iter().find(|(_, v)| **v == k).map(|(w, _)| w.clone()).unwrap(); Lit::RelDay { k, word: w } };
            let (x, y) = *r.pick(&[(0i64, 1i64), (-1, 0), (-1, 1), (1, 0), (0, -1), (1, -1), (0, 0)]);
            Expr::Between { a: b(Expr::Lit(pick(x))), b: b(Expr::Lit(pick(y))) }
        }
        _ => date_expr(r, g, lang, true),
    })
}

impl Check for C09 {
    fn id(&self) -> &'static str { "C09" }

    fn rule(&self) -> &'static str {
        "one run = a seeded sequence of date lines (every spelling, en/tr, +/- days/weeks/months/years, differences, today/tomorrow/yesterday, impossible and year-less dates) evaluated one-shot and through a session under a scripted clock: boundary-biased instants, advances between steps, and clock movement inside one-shot evaluations with the crossing position swept over the read indices; non-trivial = at least one judged step AND at least one fired clock fault (boundary freeze, advance over midnight, in-operation tick/cross/backstep with reads on both sides); distinct = distinct trace hash"
    }

    fn budget(&self, tier: &str) -> u64 { if tier == "thorough" { 60_000 } else { 5_000 } }

    fn generate(&self, seed: u64, tier: &str, env: &Env) -> Trace {
        let mut r = Rng::new(seed);
        // thorough tier: half of the runs are three times as long (deeper histories)
        let dm: u64 = if tier == "thorough" && seed % 2 == 0 { 3 } else { 1 };
        let g = SemGen::new(&env.data);
        let mut t = base_instant(&mut r, &env.host_rule);
        let n = (6 + r.below(16)) * dm;
        let move_rate = *r.pick(&[0u64, 2, 5]);
        let lang = if r.chance(1, 4) { "tr" } else { "en" };
        let mut events = Vec::new();
        let session = r.chance(1, 2);
        let zone_rate = *r.pick(&[0u64, 0, 1, 3]);
        let date_rules = r.chance(1, 4);
        let pool = g.name_pool(&mut r, 3);
        let mut bound: Vec<NameUse> = Vec::new();
        if session { events.push(Event { actor: 0, op: Op::SessionNew { lang: lang.into() }, clock: ClockScript::Frozen { t } }); }
        let mut sweep: Option<(TextSpec, i128, u32)> = None;
        for _ in 0..n {
            // sweep mode: the same text again with the crossing one read later
            if let Some((text, tt, at)) = sweep.take() {
                if at <= 5 {
                    let b = crate::gen::clocks::next_boundary(tt, 0);
                    events.push(Event { actor: 1, op: Op::Execute { lang: lang.into(), text: text.clone() }, clock: ClockScript::Cross { before: b - 1_000_000, after: b + 1_000_000, at_read: at } });
                    sweep = Some((text, tt, at + 1));
                    continue;
                }
            }
            t = advance(&mut r, t);
            if date_rules && r.chance(1, 10) {
                // the numeric spelling is re-installed through set_date_rule (day/month/year or month/day/year)
                events.push(Event { actor: ADMIN, op: Op::Admin(AdminOp::SetDateRule { mdy: r.chance(1, 2) }), clock: ClockScript::Frozen { t } });
                continue;
            }
            if r.below(10) < zone_rate {
                // the default zone labels dates; calendar arithmetic must not depend on it
                let tz = if r.chance(1, 3) { g.zone(&mut r).0 } else { r.pick(&g.zones).0.clone() };
                events.push(Event { actor: ADMIN, op: Op::Admin(AdminOp::SetTimezone { tz }), clock: ClockScript::Frozen { t } });
                continue;
            }
            let n_lines = 1 + r.usize(3);
            let use_session = session && r.chance(1, 2);
            let mut lines: Vec<Line> = Vec::new();
            for _ in 0..n_lines {
                if use_session && r.chance(1, 4) {
                    // bind a date; it outlives clock advances and default-zone changes
                    let name = r.pick(&pool).clone();
                    if !bound.iter().any(|b| b.key() == name.key()) { bound.push(name.clone()); }
                    lines.push(Line::Sem(Stmt::Assign { name: g.name_use(&mut r, &name), e: date_expr(&mut r, &g, lang, true) }));
                } else if use_session && !bound.is_empty() && r.chance(1, 3) {
                    let name = r.pick(&bound).clone();
                    let v = Box::new(Expr::Var(g.name_use(&mut r, &name)));
                    let e = match r.below(3) {
                        0 if lang == "en" => Expr::Between { a: v, b: Box::new(date_expr(&mut r, &g, lang, true)) },
                        1 if lang == "en" => Expr::Between { a: Box::new(date_expr(&mut r, &g, lang, true)), b: v },
                        _ => Expr::Bin { l: v, op: *r.pick(&['+', '-']), r: Box::new(Expr::Lit(g.dur_days(&mut r, lang, 29))), tight: false },
                    };
                    lines.push(Line::Sem(Stmt::Eval(e)));
                } else {
                    lines.push(Line::Sem(gen_line(&mut r, &g, lang)));
                }
            }
            let text = TextSpec { crlf: vec![false; lines.len()], lines, trailing_nl: false };
            if use_session {
                events.push(Event { actor: 0, op: Op::SessionText { text }, clock: ClockScript::Frozen { t } });
            } else if r.below(10) < move_rate {
                if r.chance(1, 3) { sweep = Some((text.clone(), t, 1)); }
                events.push(Event { actor: 1, op: Op::Execute { lang: lang.into(), text }, clock: moving_script(&mut r, t, 5) });
            } else {
                events.push(Event { actor: 1, op: Op::Execute { lang: lang.into(), text }, clock: ClockScript::Frozen { t } });
            }
        }
        crate::gen::session_variants(&mut r, &mut events, 3, 12, 5);
        crate::gen::nest_variants(&mut r, &mut events);
        crate::gen::builtin_delete_variants(&mut r, &mut events, &["small_date", "to_duration", "as_duration", "combine_durations"]);
        crate::gen::unwind_variants(&mut r, &mut events);
        crate::gen::decliner_variants(&mut r, &mut events);
        Trace { check: "C09".into(), seed, host_tz: env.host_tz.clone(), salt: r.next(), mode: if move_rate == 0 { "frozen-in-op".into() } else { "moving-in-op".into() }, events }
    }

    fn execute(&self, trace: &Trace, env: &Env) -> RunReport {
        let mut rep = run_semantic("C09", trace, env, &SemOpts { atomicity: true, judge_admin: true, rate_probes: vec![] });
        for e in trace.events.iter() {
            let t = e.clock.base();
            let day = 86400 * crate::clock::NS;
            let r = t.rem_euclid(day);
            if r < 2 * crate::clock::NS || day - r <= 2 * crate::clock::NS { rep.count("clock.frozen_boundary"); }
            if let ClockScript::Cross { at_read, .. } = e.clock { rep.count(&format!("probe.cross_at_read_{}", at_read)); }
        }
        rep
    }
}
