//! C06 — money literals, currency conversion and money arithmetic follow the
//! rate table.
//!
//! Simulation: session clients bind amounts of money, an administrator
//! changes rates (by code, alias and symbol; unknown names; currencies that had
//! no rate) between their steps, one-shot clients convert between all rated
//! pairs; the scheduler biases rate updates to land between a binding and its
//! use.  Oracles: rate-table model (amount * rate(B) / rate(A)), return value
//! of update_currency, and "exactly that currency": conversions not involving
//! the updated currency are bit-identical before and after the update.

use crate::checks::sem::{run_semantic, SemOpts};
use crate::checks::{Check, Env, RunReport};
use crate::clock::ClockScript;
use crate::gen::clocks::{advance, base_instant};
use crate::gen::sem::SemGen;
use crate::lang::*;
use crate::prng::Rng;
use crate::trace::{AdminOp, Event, Line, Op, TextSpec, Trace, ADMIN};

pub struct C06;

fn conn(r: &mut Rng) -> Option<String> {
    match r.below(5) { 0 => None, 1 => Some("to".into()), 2 => Some("in".into()), 3 => Some("into".into()), _ => Some("as".into()) }
}

fn gen_money_expr(r: &mut Rng, g: &SemGen, names: &[(NameUse, String)], lang: &str) -> Expr {
    let conn = |r: &mut Rng| -> Option<String> { if lang == "en" { conn(r) } else { None } };
    let m = |r: &mut Rng| Expr::Lit(Lit::Money(g.money(r)));
    if r.chance(1, 40) {
        // known-finding shape: "<n><k|M> <symbol>" followed by more input
        let code = r.pick(&["USD", "EUR", "TRY"]).to_string();
        let sym = g.data.currency_symbols(&code)[0].clone();
        let ml = MoneyLit { n: NumLit { neg: false, int: 1 + r.below(99), frac: String::new(), suffix: Some(*r.pick(&['k', 'M'])), grouped: false }, code, form: CurForm::SymbolAfter { sym, space: true } };
        return Expr::Bin { l: Box::new(Expr::Lit(Lit::Money(ml))), op: '*', r: Box::new(Expr::Lit(Lit::Num(g.small_num(r)))), tight: false };
    }
    let operand = |r: &mut Rng| -> Expr { if !names.is_empty() && r.chance(1, 2) { let n = r.pick(names).0.clone(); Expr::Var(g.name_use(r, &n)) } else { m(r) } };
    match r.below(10) {
        0 => m(r),
        1 | 2 | 3 => { let code = g.rated_code(r); let word = g.currency_word(r, &code); Expr::ToCur { e: Box::new(operand(r)), conn: conn(r), word, code } }
        4 => Expr::Bin { l: Box::new(operand(r)), op: '+', r: Box::new(m(r)), tight: r.chance(1, 6) },
        5 => Expr::Bin { l: Box::new(operand(r)), op: '-', r: Box::new(m(r)), tight: r.chance(1, 6) },
        6 => Expr::Bin { l: Box::new(operand(r)), op: '*', r: Box::new(Expr::Lit(Lit::Num(g.small_num(r)))), tight: r.chance(1, 6) },
        7 => Expr::Bin { l: Box::new(operand(r)), op: '/', r: Box::new(Expr::Lit(Lit::Num(g.small_num(r)))), tight: false },
        8 => Expr::Bin { l: Box::new(operand(r)), op: '/', r: Box::new(m(r)), tight: false },
        _ => { // identity conversion
            let ml = g.money(r);
            let code = ml.code.clone();
            let word = g.currency_word(r, &code);
            Expr::ToCur { e: Box::new(Expr::Lit(Lit::Money(ml))), conn: conn(r), word, code }
        }
    }
}

fn gen_update(r: &mut Rng, g: &SemGen, focus: &[String]) -> AdminOp {
    let rate = (1 + r.below(2_000_000)) as f64 / 1000.0;
    let name = match r.below(10) {
        0 => r.pick(&["nosuchcoin", "zz", "dollars", ""]).to_string(),
        1 => r.pick(&["$", "€", "₺", "dollar", "euro", "tl", "kr", "leva", "avro", "kroner"]).to_string(),
        2 => r.pick(&["aed", "ars", "cad", "egp"]).to_string(), // currencies without a configured rate
        3 | 4 | 5 if !focus.is_empty() => r.pick(focus).to_lowercase(),
        _ => { let c = g.rated_code(r); match r.below(3) { 0 => c.clone(), 1 => c.to_lowercase(), _ => crate::gen::raw::capitalize(&c.to_lowercase()) } }
    };
    AdminOp::UpdateCurrency { name, rate }
}

fn probes(salt: u64, g: &SemGen) -> Vec<(String, Stmt, Vec<String>)> {
    let mut r = Rng::new(salt ^ 0xC06);
    let mut v = Vec::new();
    let money = |r: &mut Rng, code: &str, max: u64| -> Expr { Expr::Lit(Lit::Money(MoneyLit { n: NumLit::int(1 + r.below(max) as i64), code: code.to_string(), form: CurForm::WordAfter { word: code.to_lowercase(), space: true } })) };
    for _ in 0..6 {
        let a = g.rated_code(&mut r);
        let b = g.rated_code(&mut r);
        let e = Expr::ToCur { e: Box::new(money(&mut r, &a, 1000)), conn: Some("to".into()), word: b.to_lowercase(), code: b.clone() };
        v.push(("en".to_string(), Stmt::Eval(e), vec![a, b]));
    }
    let a = g.rated_code(&mut r);
    let b = g.rated_code(&mut r);
    let e = Expr::Bin { l: Box::new(money(&mut r, &a, 100)), op: '+', r: Box::new(money(&mut r, &b, 100)), tight: false };
    v.push(("en".to_string(), Stmt::Eval(e), vec![a, b]));
    v
}

impl Check for C06 {
    fn id(&self) -> &'static str { "C06" }

    fn rule(&self) -> &'static str {
        "one run = seeded interleaving of session clients holding money values, one-shot conversions over the rated currencies, and an administrator updating rates (code/alias/symbol/unknown/unrated) between their steps; non-trivial = at least one model-judged money line AND at least one fired fault (rate update, rejected update, session swap, clock advance); distinct = distinct trace hash"
    }

    fn budget(&self, tier: &str) -> u64 { if tier == "thorough" { 40_000 } else { 4_000 } }

    fn generate(&self, seed: u64, tier: &str, env: &Env) -> Trace {
        let mut r = Rng::new(seed);
        let g = SemGen::new(&env.data);
        let mut t = base_instant(&mut r, &env.host_rule);
        let mut events = Vec::new();
        let faults = !r.chance(1, 5);
        let k = 1 + r.usize(3);
        struct Cl { session: bool, live: bool, names: Vec<(NameUse, String)>, pool: Vec<NameUse>, steps: u64, pending_use: bool, lang: String }
        let mut cls: Vec<Cl> = (0..k).map(|_| Cl { session: r.chance(2, 3), live: false, names: vec![], pool: g.name_pool(&mut r, 4), steps: 3 + r.below(8), pending_use: false, lang: if r.chance(1, 6) { "tr".into() } else { "en".into() } }).collect();
        let thorough_pairs = tier == "thorough";
        // an AUDITOR session (actor 9, half of the runs): the same two ordered currency pairs converted again and
        // again, with other amounts, through one long-lived session - whatever that session keeps about a pair
        // meets a rate update of that pair sooner or later
        let auditor: Option<[(String, String); 2]> = if r.chance(1, 2) { Some([(g.rated_code(&mut r), g.rated_code(&mut r)), (g.rated_code(&mut r), g.rated_code(&mut r))]) } else { None };
        let mut auditor_live = false;
        let mut auditor_pending = false;
        let sep_changes = r.chance(1, 3);
        let mut budget = 200;
        while cls.iter().any(|c| c.steps > 0) && budget > 0 {
            budget -= 1;
            t = advance(&mut r, t);
            let clock = ClockScript::Frozen { t };
            // bias: right after a binding, the administrator is likely to move a rate the binding depends on
            let mut pending: Vec<String> = cls.iter().filter(|c| c.pending_use).flat_map(|c| c.names.iter().map(|(_, code)| code.clone())).collect();
            if let (Some(a), true) = (&auditor, auditor_pending) { for (x, y) in a.iter() { pending.push(x.clone()); pending.push(y.clone()); } }
            if let Some(a) = &auditor {
                if r.chance(1, 4) {
                    if !auditor_live { auditor_live = true; events.push(Event { actor: 9, op: Op::SessionNew { lang: "en".into() }, clock: ClockScript::Frozen { t } }); }
                    let mut lines = Vec::new();
                    for (x, y) in a.iter() {
                        if r.chance(3, 4) {
                            let n = g.num(&mut r);
                            let ml = g.money_of(&mut r, x, NumLit { suffix: None, ..n });
                            lines.push(Line::Sem(Stmt::Eval(Expr::ToCur { e: Box::new(Expr::Lit(Lit::Money(ml))), conn: conn(&mut r), word: g.currency_word(&mut r, y), code: y.clone() })));
                        }
                    }
                    if !lines.is_empty() {
                        let nl = lines.len();
                        events.push(Event { actor: 9, op: Op::SessionText { text: TextSpec { lines, crlf: vec![false; nl], trailing_nl: false } }, clock: ClockScript::Frozen { t } });
                        auditor_pending = true;
                        continue;
                    }
                }
            }
            let admin_now = faults && (if !pending.is_empty() { r.chance(1, 2) } else { r.chance(1, 5) });
            if faults && sep_changes && r.chance(1, 12) {
                // the separator convention changes (both setters, either order): literals are written in the
                // convention that is current when they are evaluated, the amounts they denote stay the same
                let (d, th) = *r.pick(&[(",", "."), (".", ","), (".", ""), (",", "")]);
                let a = Event { actor: ADMIN, op: Op::Admin(AdminOp::SetDecimalSep { s: d.into() }), clock: clock.clone() };
                let b = Event { actor: ADMIN, op: Op::Admin(AdminOp::SetThousandSep { s: th.into() }), clock };
                if r.chance(1, 2) { events.push(a); events.push(b); } else { events.push(b); events.push(a); }
                continue;
            }
            if admin_now {
                events.push(Event { actor: ADMIN, op: Op::Admin(gen_update(&mut r, &g, &pending)), clock });
                for c in cls.iter_mut() { c.pending_use = false; }
                auditor_pending = false;
                continue;
            }
            let live: Vec<usize> = (0..cls.len()).filter(|i| cls[*i].steps > 0).collect();
            let who = *r.pick(&live);
            let c = &mut cls[who];
            c.steps -= 1;
            let n_lines = 1 + r.usize(4);
            let mut lines = Vec::new();
            for _ in 0..n_lines {
                if c.session && (c.names.is_empty() || r.chance(1, 3)) {
                    let name = r.pick(&c.pool).clone();
                    let ml = g.money(&mut r);
                    let code = ml.code.clone();
                    c.names.retain(|(n, _)| n.key() != name.key());
                    c.names.push((name.clone(), code));
                    c.pending_use = true;
                    let e = if r.chance(1, 4) {
                        // bound to a sum or difference of two amounts in different currencies: its value depends on the table as it is now
                        let other = g.money(&mut r);
                        Expr::Bin { l: Box::new(Expr::Lit(Lit::Money(ml))), op: *r.pick(&['+', '-']), r: Box::new(Expr::Lit(Lit::Money(other))), tight: false }
                    } else { Expr::Lit(Lit::Money(ml)) };
                    lines.push(Line::Sem(Stmt::Assign { name: g.name_use(&mut r, &name), e }));
                } else if thorough_pairs && r.chance(1, 3) {
                    // systematic pair coverage: pair index derived from the seed
                    let a = g.rated[(seed as usize / 7 + lines.len()) % g.rated.len()].clone();
                    let b = g.rated[(seed as usize / 7 / g.rated.len() + 3 * lines.len()) % g.rated.len()].clone();
                    let n = g.num(&mut r);
                    let ml = g.money_of(&mut r, &a, NumLit { suffix: None, ..n });
                    let word = g.currency_word(&mut r, &b);
                    lines.push(Line::Sem(Stmt::Eval(Expr::ToCur { e: Box::new(Expr::Lit(Lit::Money(ml))), conn: if c.lang == "en" { conn(&mut r) } else { None }, word, code: b })));
                } else {
                    let names: Vec<(NameUse, String)> = if c.session { c.names.clone() } else { vec![] };
                    lines.push(Line::Sem(Stmt::Eval(gen_money_expr(&mut r, &g, &names, &c.lang))));
                }
            }
            let crlf = (0..lines.len()).map(|_| r.chance(1, 6)).collect();
            let text = TextSpec { lines, crlf, trailing_nl: r.chance(1, 10) };
            if c.session {
                if !c.live || (faults && r.chance(1, 12)) {
                    c.live = true;
                    c.names.clear();
                    events.push(Event { actor: who as u8, op: Op::SessionNew { lang: c.lang.clone() }, clock: clock.clone() });
                    // names bound in this very text stay; those from the old session are gone: regenerate simply
                    // by making the first text of a new session contain only self-contained lines
                    let mut l2 = Vec::new();
                    for l in text.lines.iter() {
                        match l {
                            Line::Sem(Stmt::Assign { name, e: Expr::Lit(Lit::Money(ml)) }) => { c.names.push((NameUse { words: name.words.clone() }, ml.code.clone())); l2.push(l.clone()); }
                            _ => l2.push(Line::Sem(Stmt::Eval(gen_money_expr(&mut r, &g, &c.names.clone(), &c.lang)))),
                        }
                    }
                    let n = l2.len();
                    events.push(Event { actor: who as u8, op: Op::SessionText { text: TextSpec { lines: l2, crlf: vec![false; n], trailing_nl: false } }, clock });
                } else {
                    events.push(Event { actor: who as u8, op: Op::SessionText { text }, clock });
                }
            } else {
                events.push(Event { actor: who as u8, op: Op::Execute { lang: c.lang.clone(), text }, clock });
            }
        }
        crate::gen::session_variants(&mut r, &mut events, 4, 5, 0);
        crate::gen::nest_variants(&mut r, &mut events);
        crate::gen::builtin_delete_variants(&mut r, &mut events, &["convert_money", "money_on", "money_of", "money_off"]);
        // (more often than elsewhere: a text that converts and is then lost, a rate update, the same text again)
        crate::gen::unwind_variants_at(&mut r, &mut events, 3, 4);
        crate::gen::decliner_variants(&mut r, &mut events);
        if r.chance(1, 5) {
            // the calculator is built from a JSON table in which the dollar does not stand at 1 (the very first event:
            // everything else, rule registrations included, happens on that calculator)
            let t0 = events.first().map(|e| e.clock.base()).unwrap_or(crate::clock::NS);
            events.insert(0, Event { actor: ADMIN, op: Op::Admin(AdminOp::LoadTable { usd: *r.pick(&[2.0, 0.5, 1.25, 4.0]) }), clock: ClockScript::Frozen { t: t0 } });
        }
        Trace { check: "C06".into(), seed, host_tz: env.host_tz.clone(), salt: r.next(), mode: if faults { "faults".into() } else { "fault-free".into() }, events }
    }

    fn execute(&self, trace: &Trace, env: &Env) -> RunReport {
        let g = SemGen::new(&env.data);
        run_semantic("C06", trace, env, &SemOpts { atomicity: false, judge_admin: true, rate_probes: probes(trace.salt, &g) })
    }
}
