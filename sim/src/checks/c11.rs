//! C11 — clock times and zones: conversion keeps the instant, arithmetic is
//! modulo 24 h.
//!
//! What the simulator owns: every time literal is anchored on "today" (clock),
//! `<time> <zone>` used to go through the HOST time zone, and the default zone
//! is mutable configuration that sessions outlive.  Runs vary the simulated
//! instant (boundary-biased, advancing, moving inside one-shot evaluations),
//! the host zone of the worker (time literals are placed inside the skipped /
//! repeated hour of the host zone on its DST transition dates), and let an
//! administrator change the default zone between a session's binding and use.
//! Oracles: wall-time model (seconds modulo 86 400, zone offsets in minutes),
//! printed form "HH:MM:SS ZONE", clock atomicity.  Because the model's answer
//! does not depend on the instant or the host zone, agreement under every
//! instant and host zone is the "instant independence" of the design.

use crate::checks::sem::{run_semantic, SemOpts};
use crate::checks::{Check, Env, RunReport};
use crate::clock::{utc_date, ClockScript};
use crate::gen::clocks::{advance, base_instant, classify_wall, fold, gap, moving_script};
use crate::gen::sem::SemGen;
use crate::lang::*;
use crate::prng::Rng;
use crate::trace::{AdminOp, Event, Line, Op, TextSpec, Trace, ADMIN};

pub struct C11;

fn conn(r: &mut Rng) -> String { r.pick(&["to", "in", "as", "into"]).to_string() }

fn dur(r: &mut Rng, g: &SemGen, lang: &str) -> Expr {
    Expr::Lit(if r.chance(1, 8) { g.dur_days(r, lang, 9) } else { g.dur_clock(r, lang) })
}

fn time_expr(r: &mut Rng, g: &SemGen, names: &[NameUse]) -> Expr {
    if !names.is_empty() && r.chance(1, 2) { let n = r.pick(names).clone(); return Expr::Var(g.name_use(r, &n)); }
    let z = r.chance(1, 2);
    Expr::Lit(Lit::Time(g.time_lit(r, z)))
}

fn gen_line(r: &mut Rng, g: &SemGen, lang: &str, names: &[NameUse]) -> Expr {
    let b = Box::new;
    if lang != "en" {
        // only literals without zone and +/- durations exist outside the English tables
        let t = Expr::Lit(Lit::Time(g.time_lit(r, false)));
        return match r.below(3) { 0 => t, _ => Expr::Bin { l: b(t), op: *r.pick(&['+', '-']), r: b(dur(r, g, lang)), tight: false } };
    }
    match r.below(10) {
        0 | 1 => time_expr(r, g, names),
        2 | 3 | 4 => { let (zone, off) = g.zone(r); let zone = if r.chance(1, 4) { zone.to_lowercase() } else { zone }; Expr::ToZone { e: b(time_expr(r, g, names)), conn: conn(r), zone, off } }
        5 | 6 => Expr::Bin { l: b(time_expr(r, g, names)), op: *r.pick(&['+', '-']), r: b(dur(r, g, lang)), tight: false },
        7 if names.len() >= 2 && r.chance(1, 4) => { // two times held in names
            let n1 = r.pick(names).clone(); let n2 = r.pick(names).clone();
            Expr::Between { a: b(Expr::Var(g.name_use(r, &n1))), b: b(Expr::Var(g.name_use(r, &n2))) }
        }
        7 if !names.is_empty() && r.chance(1, 2) => { // a time held in a name against a literal (judged when both were read the same day)
            let nm = r.pick(names).clone(); let v = Expr::Var(g.name_use(r, &nm));
            let z = r.chance(1, 3); let lit = Expr::Lit(Lit::Time(g.time_lit(r, z)));
            if r.chance(1, 2) { Expr::Between { a: b(v), b: b(lit) } } else { Expr::Between { a: b(lit), b: b(v) } }
        }
        7 => { // difference of two literals in the same zone
            let zone = if r.chance(1, 6) { Some(g.zone(r)) } else { None };
            let mut t1 = g.time_lit(r, false);
            let mut t2 = g.time_lit(r, false);
            t1.zone = zone.clone();
            t2.zone = zone;
            Expr::Between { a: b(Expr::Lit(Lit::Time(t1))), b: b(Expr::Lit(Lit::Time(t2))) }
        }
        8 => { // conversion chain: (t to Z1) to Z2 through a parenthesis-free spelling is not expressible; convert a zoned literal instead
            let (zone, off) = g.zone(r);
            Expr::ToZone { e: b(Expr::Lit(Lit::Time(g.time_lit(r, true)))), conn: conn(r), zone, off }
        }
        _ => Expr::Bin { l: b(Expr::Lit(Lit::Time(g.time_lit(r, true)))), op: *r.pick(&['+', '-']), r: b(dur(r, g, lang)), tight: false },
    }
}

impl Check for C11 {
    fn id(&self) -> &'static str { "C11" }

    fn rule(&self) -> &'static str {
        "one run = seeded sequence of time lines (24 h and am/pm literals, zone abbreviations and GMT offsets, conversions, +/- durations, differences) evaluated one-shot and through sessions that hold time values while an administrator changes the default zone, under a scripted clock and the worker's host zone with literals placed in the host zone's DST gap/fold; non-trivial = at least one judged step AND at least one fired fault (default-zone change between steps, DST gap/fold placement, boundary freeze, advance over midnight, in-operation clock movement); distinct = distinct trace hash"
    }

    fn budget(&self, tier: &str) -> u64 { if tier == "thorough" { 60_000 } else { 5_000 } }

    fn generate(&self, seed: u64, tier: &str, env: &Env) -> Trace {
        let mut r = Rng::new(seed);
        // thorough tier: half of the runs are three times as long (deeper histories)
        let dm: u64 = if tier == "thorough" && seed % 2 == 0 { 3 } else { 1 };
        let g = SemGen::new(&env.data);
        let mut t = base_instant(&mut r, &env.host_rule);
        let n = (6 + r.below(16)) * dm;
        let move_rate = *r.pick(&[0u64, 2, 4]);
        let zone_rate = *r.pick(&[0u64, 2, 4]);
        let unit_clash = r.chance(1, 4);
        let mut fam_added = false;
        let mut n_items = 0usize;
        let lang = if r.chance(1, 6) { "tr" } else { "en" };
        let session = r.chance(1, 2);
        let pool = g.name_pool(&mut r, 3);
        let mut bound: Vec<NameUse> = Vec::new();
        let mut events = Vec::new();
        if session { events.push(Event { actor: 0, op: Op::SessionNew { lang: lang.into() }, clock: ClockScript::Frozen { t } }); }
        for _ in 0..n {
            t = advance(&mut r, t);
            if unit_clash && r.chance(1, 10) {
                // a user-defined unit that answers to a zone abbreviation: times in that zone keep their meaning
                let z = r.pick(&g.zones).0.to_lowercase();
                if !fam_added { fam_added = true; events.push(Event { actor: ADMIN, op: Op::Admin(AdminOp::AddType { name: "famt".into() }), clock: ClockScript::Frozen { t } }); }
                n_items += 1;
                events.push(Event { actor: ADMIN, op: Op::Admin(AdminOp::AddTypeItem(crate::trace::TypeItemSpec { family: "famt".into(), index: n_items, format: format!("{{value}} {}", z), parse: vec![format!("{{NUMBER:value}} {{TEXT:type:{}}}", z)], upgrade: "{value} / 2".into(), downgrade: "{value} * 2".into(), names: vec![z] })), clock: ClockScript::Frozen { t } });
                continue;
            }
            if r.below(10) < zone_rate {
                let (tz, off) = match r.below(9) { 0 => ("NOPE".to_string(), None), 1 => ("QQQQ".to_string(), None), 8 => (format!("{}{}", r.pick(&g.zones).0, r.pick(&["/EDT", ",", "/", ".", ")", ", x", "/Berlin"])), None), 2 | 3 => { let (z, o) = g.zone(&mut r); (z, Some(o)) } _ => { let (z, o) = r.pick(&g.zones).clone(); (z, Some(o)) } };
                events.push(Event { actor: ADMIN, op: Op::Admin(AdminOp::SetTimezone { tz: tz.clone() }), clock: ClockScript::Frozen { t } });
                if let Some(o) = off { if r.chance(1, 3) { if let Some(z2) = g.same_offset_other_spelling(&mut r, &tz, o) { events.push(Event { actor: ADMIN, op: Op::Admin(AdminOp::SetTimezone { tz: z2 }), clock: ClockScript::Frozen { t } }); } } }
                continue;
            }
            let mut lines: Vec<Line> = Vec::new();
            // host-zone fault placement
            if lang == "en" {
                if let Some(h) = &env.host_rule {
                    if r.chance(1, 4) {
                        let (y, _, _) = utc_date(t);
                        let ((yy, m, d), a, bb) = if r.chance(1, 2) { gap(y, h) } else { fold(y, h) };
                        t = crate::gen::clocks::clamp_instant(crate::clock::instant(yy, m, d, r.below(24) as u32, r.below(60) as u32, 0));
                        let w = a + r.below((bb - a) as u64) as i64;
                        let tl = TimeLit { h: (w / 3600) as u32, m: ((w / 60) % 60) as u32, s: None, meridiem: None, hour_only: false, zone: Some(g.zone(&mut r)) };
                        lines.push(Line::Sem(Stmt::Eval(Expr::Lit(Lit::Time(tl)))));
                    }
                }
            }
            let n_lines = 1 + r.usize(3);
            let use_session = session && r.chance(2, 3);
            for _ in 0..n_lines {
                if use_session && lang == "en" && r.chance(1, 4) {
                    let name = r.pick(&pool).clone();
                    let z = r.chance(1, 2);
                    let e = Expr::Lit(Lit::Time(g.time_lit(&mut r, z)));
                    if !bound.iter().any(|b| b.key() == name.key()) { bound.push(name.clone()); }
                    lines.push(Line::Sem(Stmt::Assign { name: g.name_use(&mut r, &name), e }));
                } else {
                    let names: Vec<NameUse> = if use_session { bound.clone() } else { vec![] };
                    if tier == "thorough" && lang == "en" && r.chance(1, 4) {
                        // systematic coverage of the ordered zone pairs of the table: pair index derived from the seed and the line count
                        let nz = g.zones.len();
                        let k = (seed / 11) as usize + lines.len() * 7919;
                        let (za, oa) = g.zones[k % nz].clone();
                        let (zb, ob) = g.zones[(k / nz) % nz].clone();
                        let mut tl = g.time_lit(&mut r, false);
                        tl.zone = Some((za, oa));
                        lines.push(Line::Sem(Stmt::Eval(Expr::ToZone { e: Box::new(Expr::Lit(Lit::Time(tl))), conn: conn(&mut r), zone: zb, off: ob })));
                        continue;
                    }
                    lines.push(Line::Sem(Stmt::Eval(gen_line(&mut r, &g, lang, &names))));
                }
            }
            let text = TextSpec { crlf: vec![false; lines.len()], lines, trailing_nl: false };
            if use_session {
                events.push(Event { actor: 0, op: Op::SessionText { text }, clock: ClockScript::Frozen { t } });
            } else {
                let clock = if r.below(10) < move_rate { moving_script(&mut r, t, 4) } else { ClockScript::Frozen { t } };
                events.push(Event { actor: 1, op: Op::Execute { lang: lang.into(), text }, clock });
            }
        }
        crate::gen::session_variants(&mut r, &mut events, 3, 12, 5);
        crate::gen::nest_variants(&mut r, &mut events);
        crate::gen::builtin_delete_variants(&mut r, &mut events, &["to_duration", "convert_timezone", "time_with_timezone", "duration_parse", "combine_durations"]);
        crate::gen::unwind_variants(&mut r, &mut events);
        crate::gen::decliner_variants(&mut r, &mut events);
        Trace { check: "C11".into(), seed, host_tz: env.host_tz.clone(), salt: r.next(), mode: if move_rate == 0 { "frozen-in-op".into() } else { "moving-in-op".into() }, events }
    }

    fn execute(&self, trace: &Trace, env: &Env) -> RunReport {
        let mut rep = run_semantic("C11", trace, env, &SemOpts { atomicity: true, judge_admin: true, rate_probes: vec![] });
        // fault accounting: literals that sit in the host zone's gap / fold on the simulated date
        for e in trace.events.iter() {
            let date = utc_date(e.clock.base());
            if let Op::Execute { text, .. } | Op::SessionText { text } = &e.op {
                for l in text.lines.iter() {
                    if let Line::Sem(Stmt::Eval(Expr::Lit(Lit::Time(tl)))) = l {
                        if tl.zone.is_some() {
                            match classify_wall(date, tl.wall_secs(), &env.host_rule) { "gap" => rep.count("tz.dst_gap"), "fold" => rep.count("tz.dst_fold"), _ => {} }
                        }
                    }
                }
            }
            if !e.clock.is_frozen() { rep.count("probe.moving_clock_configured"); }
        }
        rep
    }
}
