//! C18 — custom rules and user-defined unit families: registration, effect, removal.
//!
//! Simulation: an administrator issues a seeded history of add_rule /
//! delete_rule / add_dynamic_type / add_dynamic_type_item calls (valid,
//! duplicate, unknown language / name / family) interleaved with client
//! evaluations; rule callbacks are simulator-owned and accept or decline as a
//! pure function of (salt, rule, fields).
//!
//! Oracles:
//!  * registration model: return value of every registration call;
//!  * callback log: the first live rule (registration order) whose pattern
//!    matches is called first, with its fields bound by name; after a decline
//!    the next one is called; the line's value is the accepted rule's token,
//!    or - when every matching rule declined or none is live - exactly what a
//!    calculator without any custom rule gives (replica P);
//!  * O-survivors: at checkpoints a FRESH calculator is built, only the
//!    surviving registrations are applied in their original relative order,
//!    and a probe set must evaluate identically on it and on the long-lived one;
//!  * rejected calls change nothing: the probe set is bit-identical before and after;
//!  * family chain model: conversion along the declared chain equals the
//!    product of the declared factors (amounts and factors kept integral).

use std::collections::BTreeMap;


use crate::checks::{Check, Env, RunReport};
use crate::clock::{ClockScript, NS};
use crate::gen::clocks::{advance, base_instant};
use crate::obs::{CallObs, Val, F};
use crate::prng::Rng;
use crate::rules::{digest_vals, expected_result, Decision};
use crate::trace::{AdminOp, Event, InnerStep, Line, Op, ResultSpec, RuleSpec, TextSpec, Trace, TypeItemSpec, ADMIN};
use crate::world::{AdminObs, World};

pub struct C18;

/// rule shapes: (keyword, patterns, result constructor index)
const SHAPES: &[(&str, &[&str])] = &[
    ("zork", &["zork {NUMBER:n}", "{NUMBER:n} zork"]),
    ("blip", &["blip {TEXT:w}"]),
    ("quux", &["{MONEY:m} quux"]),
    ("frob", &["{NUMBER:a} frob {NUMBER:b}"]),
    ("glorp", &["glorp {PERCENT:p} glorp", "{PERCENT:p} glorp glorp"]),
    ("snarf", &["{NUMBER:n} {TEXT:coin:snarf}"]),
    // both patterns match every "x wug y", with the fields bound the other way round: the rule may
    // decline the first binding and accept the second
    ("wug", &["{NUMBER:a} wug {NUMBER:b}", "{NUMBER:b} wug {NUMBER:a}"]),
    // a keyword with cased non-ASCII letters: lines may spell it in another case
    ("çörk", &["çörk {NUMBER:n}"]),
    // fields of other types; the operand may also be a VARIABLE holding a value of that type
    ("plonk", &["plonk {DURATION:d}"]),
    // restricted to one user family, spelled in another case than the family was registered with
    ("dibs", &["{DYNAMIC_TYPE:q:FamX} dibs"]),
    ("dday", &["{DATE:d} dday"]),
    // a clock word inside the PATTERN: it is read when the rule is registered ("today" of the registration
    // day), so the rule matches lines of that same day only - until it is registered again
    ("due", &["{NUMBER:n} due today"]),
];

fn shape_of(spec: &RuleSpec) -> Option<usize> {
    SHAPES.iter().position(|(_, pats)| spec.patterns.len() == pats.len() && spec.patterns.iter().zip(pats.iter()).all(|(a, b)| a == b))
}

fn gen_rule(r: &mut Rng, id: u32, rated: &[String], no_dday: bool) -> RuleSpec {
    // (runs that re-install the date spellings do without the shape that consumes DATE tokens: set_date_rule
    // moves the library's own date rule behind the custom rules, which changes WHICH of two such rules sees a
    // date first - not something any statement fixes)
    let k = loop { let k = r.usize(SHAPES.len()); if !(no_dday && k == 10) { break k; } };
    let (_, pats) = SHAPES[k];
    let result = match k {
        0 => if r.chance(1, 2) { ResultSpec::NumberTimes { field: "n".into(), k: (2 + r.below(7)) as f64 } } else { ResultSpec::Number((100 + r.below(900)) as f64) },
        1 => ResultSpec::Number((1000 + r.below(9000)) as f64),
        2 => if r.chance(1, 2) { ResultSpec::Echo { field: "m".into() } } else { ResultSpec::Money { amount: (1 + r.below(500)) as f64, code: r.pick(rated).clone() } },
        3 => ResultSpec::NumberTimes { field: if r.chance(1, 2) { "a".into() } else { "b".into() }, k: (2 + r.below(7)) as f64 },
        4 => if r.chance(1, 2) { ResultSpec::DurationSecs(60 * (1 + r.below(1000)) as i64) } else { ResultSpec::Percent((1 + r.below(99)) as f64) },
        6 => ResultSpec::NumberTimes { field: if r.chance(1, 2) { "a".into() } else { "b".into() }, k: (2 + r.below(7)) as f64 },
        7 => if r.chance(1, 2) { ResultSpec::NumberTimes { field: "n".into(), k: (2 + r.below(7)) as f64 } } else { ResultSpec::Number((100 + r.below(900)) as f64) },
        8 | 9 | 10 | 11 => ResultSpec::Number((100 + r.below(900)) as f64),
        _ => ResultSpec::Money { amount: (1 + r.below(500)) as f64, code: r.pick(rated).clone() },
    };
    RuleSpec { id, name: format!("rule{}", r.below(5)), patterns: pats.iter().map(|s| s.to_string()).collect(), result, decline_num: if k == 6 { *r.pick(&[1u32, 2, 2, 3]) } else { *r.pick(&[0u32, 0, 1, 2, 4]) }, decline_den: 4, unwind_den: 0 }
}

/// a probe line for shape k: (line, matches?)
fn gen_probe(r: &mut Rng, k: usize) -> (String, bool) {
    let (line, m) = gen_probe_lc(r, k);
    // now and then the keyword in another case (it folds back byte for byte)
    if r.chance(1, 6) {
        let kw = SHAPES[k].0;
        let alt = if r.chance(1, 2) { kw.to_uppercase() } else { crate::gen::raw::capitalize(kw) };
        if alt.to_lowercase() == kw { return (line.replace(kw, &alt), m); }
    }
    (line, m)
}

fn gen_probe_lc(r: &mut Rng, k: usize) -> (String, bool) {
    let n = r.below(50);
    let m = 1 + r.below(50);
    match k {
        0 => match r.below(4) { 0 => (format!("zork {}", n), true), 1 => (format!("{} zork", n), true), 2 => ("zork apple".to_string(), false), _ => (format!("zork {}%", n), false) },
        1 => match r.below(3) { 0 => (format!("blip {}", r.pick(&["apple", "banana", "gross"])), true), 1 => (format!("blip {}", n), false), _ => ("blip".to_string(), false) },
        2 => match r.below(3) { 0 => (format!("{} usd quux", m), true), 1 => (format!("${} quux", m), true), _ => (format!("{} quux", m), false) },
        3 => match r.below(3) { 0 | 1 => (format!("{} frob {}", n, m), true), _ => (format!("{} frob apple", n), false) },
        4 => match r.below(3) { 0 => (format!("glorp {}% glorp", n), true), 1 => (format!("{}% glorp glorp", n), true), _ => (format!("glorp {} glorp", n), false) },
        6 => match r.below(4) { 0 => (format!("{} wug apple", n), false), _ => (format!("{} wug {}", n, m), true) },
        7 => match r.below(4) { 0 => (format!("çörk {}%", n), false), _ => (format!("çörk {}", n), true) },
        8 => match r.below(4) { 0 => (format!("plonk {}", n), false), 1 => (format!("plonk {} minutes", 1 + n), true), _ => (format!("plonk {} hours", 1 + n), true) },
        9 => match r.below(5) { 0 => (format!("{} km dibs", m), false), 1 => (format!("{} {} dibs", m, unit_name("famy", r.usize(5))), false), _ => (format!("{} {} dibs", m, unit_name("famx", r.usize(5))), true) },
        10 => match r.below(4) { 0 => (format!("{} dday", n), false), _ => (format!("{}/{}/{} dday", 1 + r.below(28), 1 + r.below(12), 1950 + r.below(150)), true) },
        11 => match r.below(6) { 0 => (format!("{} due tomorrow", n), true), 1 => (format!("{} due yesterday", n), true), 2 => (format!("{} due 5", n), false), _ => (format!("{} due today", n), true) },
        _ => match r.below(3) { 0 | 1 => (format!("{} snarf", n), true), _ => (format!("{} snarfx", n), false) },
    }
}

/// two spots joined by an operator; both spots belong to shapes whose rules return plain numbers
fn gen_compound(r: &mut Rng) -> String {
    let spot = |r: &mut Rng| -> String {
        match r.below(6) {
            0 => format!("{}", 1 + r.below(90)),
            1 => format!("zork {}", r.below(50)),
            2 => format!("{} zork", r.below(50)),
            3 => format!("{} frob {}", r.below(50), 1 + r.below(50)),
            4 => format!("{} wug {}", r.below(50), 1 + r.below(50)),
            _ => format!("çörk {}", r.below(50)),
        }
    };
    let a = spot(r);
    let b = if r.chance(1, 2) {
        // the same shape again with other numbers
        let w: Vec<&str> = a.split(' ').collect();
        w.iter().map(|x| if x.chars().all(|c| c.is_ascii_digit()) { format!("{}", 1 + r.below(60)) } else { x.to_string() }).collect::<Vec<_>>().join(" ")
    } else { spot(r) };
    let op = *r.pick(&["+", "+", "-", "*"]);
    if r.chance(1, 4) { let c = spot(r); format!("{} {} {} + {}", a, op, b, c) } else { format!("{} {} {}", a, op, b) }
}

/// A two-spot line aimed at a constellation the seeded decisions rarely produce by chance: two live
/// rules of one shape, the earlier one declines the first spot (the later one accepts it) and is the
/// only one to accept the second spot.
fn aimed_compound(r: &mut Rng, live: &[RuleSpec], salt: u64) -> Option<String> {
    let numeric = [0usize, 3, 6, 7];
    let mut shapes: Vec<usize> = numeric.iter().cloned().filter(|k| live.iter().filter(|s| shape_of(s) == Some(*k)).count() >= 2).collect();
    if shapes.is_empty() { return None; }
    let k = *r.pick(&mut shapes);
    let rules: Vec<&RuleSpec> = live.iter().filter(|s| shape_of(s) == Some(k)).collect();
    let spot = |r: &mut Rng| -> String { match k { 0 => if r.chance(1, 2) { format!("zork {}", r.below(60)) } else { format!("{} zork", r.below(60)) }, 3 => format!("{} frob {}", r.below(60), 1 + r.below(60)), 6 => format!("{} wug {}", r.below(60), 1 + r.below(60)), _ => format!("çörk {}", r.below(60)) } };
    let verdicts = |sp: &str| -> Option<Vec<bool>> {
        // per rule: does it accept some binding of this spot?
        let f = expected_fields_plain(k, sp)?;
        let bindings = if k == 6 { vec![f.clone(), vec![(f[0].0.clone(), f[1].1.clone()), (f[1].0.clone(), f[0].1.clone())]] } else { vec![f] };
        let digests: Vec<u64> = bindings.iter().map(|b| { let mut b = b.clone(); b.sort_by(|x, y| x.0.cmp(&y.0)); digest_vals(&b) }).collect();
        Some(rules.iter().map(|s| digests.iter().any(|d| crate::rules::decide(s, salt, *d) == Decision::Accept)).collect())
    };
    for _ in 0..40 {
        let a = spot(r);
        let b = spot(r);
        let (va, vb) = match (verdicts(&a), verdicts(&b)) { (Some(x), Some(y)) => (x, y), _ => continue };
        // first spot: the first rule declines, exactly one later rule accepts; second spot: only the first rule accepts
        if !va[0] && va.iter().filter(|x| **x).count() == 1 && vb[0] && vb.iter().filter(|x| **x).count() == 1 {
            return Some(format!("{} + {}", a, b));
        }
    }
    None
}

/// for probes of the typed-field shapes: (the operand as written, the line with `vv` in its place)
fn split_operand(line: &str) -> Option<(String, String)> {
    let lower = line.to_lowercase();
    if let Some(rest) = lower.strip_prefix("plonk ") { if rest.contains(' ') { return Some((line["plonk ".len()..].to_string(), format!("{} vv", &line[.."plonk".len()]))); } }
    for kw in ["dibs", "dday"] {
        if let Some(op) = lower.strip_suffix(&format!(" {}", kw)) { let n = op.len(); return Some((line[..n].to_string(), format!("vv {}", &line[n + 1..]))); }
    }
    None
}

const FAMILIES: &[&str] = &["famx", "famy", "famz"];

fn unit_name(fam: &str, idx: usize) -> String {
    // letters only (a unit word is one text token)
    let suffix = (b'a' + idx as u8) as char;
    format!("{}{}", fam, suffix)
}

fn gen_item(r: &mut Rng, fam: &str, idx: usize) -> TypeItemSpec {
    let up = *r.pick(&[2u32, 3, 4, 5, 10]);
    let down = *r.pick(&[2u32, 3, 4, 5, 10]);
    let unit = unit_name(fam, idx);
    // a second name that other families use too (at other indices): a conversion by that name must stay
    // inside the source's own family
    let shared = format!("shr{}", (b'a' + r.below(2) as u8) as char);
    // a third of the items declare steps that are not proportional (an offset): "{value} / 2 + 30", "({value} - 30) * 2"
    let (upgrade, downgrade) = if r.chance(1, 3) {
        let c = *r.pick(&[30u32, 7, 100, 12]);
        (format!("{{value}} / {} + {}", up, c), format!("({{value}} - {}) * {}", c, down))
    } else {
        (format!("{{value}} / {}", up), format!("{{value}} * {}", down))
    };
    TypeItemSpec { family: fam.to_string(), index: idx, format: format!("{{value}} {}", unit), parse: vec![format!("{{NUMBER:value}} {{TEXT:type:{}}}", unit)], upgrade, downgrade, names: vec![unit, shared] }
}

/// the declared step as a function: "{value} <op> k", "{value} <op> k + c", "({value} - c) <op> k"
fn apply_code(code: &str, v: f64) -> Option<f64> {
    let f = |op: &str, v: f64, k: f64| -> Option<f64> { match op { "/" => Some(v / k), "*" => Some(v * k), _ => None } };
    if let Some(rest) = code.strip_prefix("({value} - ") {
        let (c, rest) = rest.split_once(") ")?;
        let (op, k) = rest.split_once(' ')?;
        return f(op, v - c.parse::<f64>().ok()?, k.parse().ok()?);
    }
    let rest = code.strip_prefix("{value} ")?;
    let parts: Vec<&str> = rest.split(' ').collect();
    match parts.len() {
        2 => f(parts[0], v, parts[1].parse().ok()?),
        4 if parts[2] == "+" => Some(f(parts[0], v, parts[1].parse().ok()?)? + parts[3].parse::<f64>().ok()?),
        _ => None,
    }
}

/// expected amount when converting `v` from index s to index t along the declared chain
fn chain_model(items: &BTreeMap<usize, TypeItemSpec>, v: f64, s: usize, t: usize) -> Option<f64> {
    let mut v = v;
    items.get(&s)?;
    if s == t { return Some(v); }
    if s < t {
        for i in s..t {
            let it = items.get(&i)?;
            v = apply_code(&it.upgrade, v)?;
            if v.fract() != 0.0 || v < 0.0 { return None; } // stay integral: fractional intermediates are C08's subject
        }
        items.get(&t)?;
    } else {
        let mut i = s;
        while i > t {
            let it = items.get(&i)?;
            v = apply_code(&it.downgrade, v)?;
            if v.fract() != 0.0 || v < 0.0 { return None; }
            i -= 1;
        }
        items.get(&t)?;
    }
    Some(v)
}

fn gen_probe_set(r: &mut Rng) -> Vec<(String, String)> {
    let mut v = Vec::new();
    for k in 0..SHAPES.len() {
        for _ in 0..2 {
            let (l, _) = gen_probe(r, k);
            v.push(("en".to_string(), l));
        }
    }
    let k = r.usize(SHAPES.len());
    let (l, _) = gen_probe(r, k);
    v.push(("tr".to_string(), l));
    for fam in FAMILIES {
        let a = r.usize(5);
        let b = r.usize(5);
        v.push(("en".to_string(), format!("{} {} to {}", 3600 * (1 + r.below(20)), unit_name(fam, a), unit_name(fam, b))));
        v.push(("en".to_string(), format!("{} {}", 1 + r.below(100), unit_name(fam, a))));
    }
    v.push(("en".to_string(), "10 usd to try".to_string()));
    v.push(("en".to_string(), "3 km to m".to_string()));
    v.push(("en".to_string(), "12 + 30%".to_string()));
    v
}

impl Check for C18 {
    fn id(&self) -> &'static str { "C18" }

    fn rule(&self) -> &'static str {
        "one run = one seeded history of registration calls (add_rule / delete_rule / add_dynamic_type / add_dynamic_type_item; valid, duplicate and invalid) interleaved with probe evaluations and checkpoints that rebuild a fresh calculator from the survivors; non-trivial = at least one judged probe AND at least one fired fault (rejected registration, deletion, callback decline); distinct = distinct trace hash"
    }

    fn budget(&self, tier: &str) -> u64 { if tier == "thorough" { 30_000 } else { 2_500 } }

    fn generate(&self, seed: u64, tier: &str, env: &Env) -> Trace {
        let mut r = Rng::new(seed);
        // thorough tier: half of the runs are three times as long (deeper histories)
        let dm: u64 = if tier == "thorough" && seed % 2 == 0 { 3 } else { 1 };
        // the salt of the callback decisions is drawn first, so that the generator can aim lines at
        // particular accept/decline constellations
        let salt = r.next();
        let mut live_en: Vec<RuleSpec> = Vec::new();
        let rated: Vec<String> = env.data.rates.keys().cloned().collect();
        let mut t = base_instant(&mut r, &env.host_rule);
        let mut events = Vec::new();
        let n = (10 + r.below(30)) * dm;
        let mut rule_id = 0u32;
        let checkpoints = 1 + r.below(3);
        let mut cp_left = checkpoints;
        let type_bias = r.chance(1, 2);
        let date_rule_run = r.chance(1, 4);
        // what the generator believes is registered (used only to aim probes; the oracle uses the model)
        let mut shapes_seen: Vec<usize> = Vec::new();
        let mut fams_seen: Vec<(String, Vec<usize>)> = Vec::new();
        let bursts = match r.below(4) { 0 => 0, 1 | 2 => 1, _ => 2 };
        for burst in 0..bursts {
            // set-up burst: one or two families with a contiguous chain, so that conversions (also by a
            // unit name that both families use) are judged from the start
            let fam = FAMILIES[(r.usize(FAMILIES.len()) + burst) % FAMILIES.len()].to_string();
            if fams_seen.iter().any(|(f, _)| *f == fam) { continue; }
            events.push(Event { actor: ADMIN, op: Op::Admin(AdminOp::AddType { name: fam.clone() }), clock: ClockScript::Frozen { t } });
            let lo = r.usize(2);
            let hi = 2 + r.usize(3);
            let mut order: Vec<usize> = (lo..=hi).collect();
            if r.chance(1, 2) { order.reverse(); }
            for idx in order.iter() { events.push(Event { actor: ADMIN, op: Op::Admin(AdminOp::AddTypeItem(gen_item(&mut r, &fam, *idx))), clock: ClockScript::Frozen { t } }); }
            fams_seen.push((fam, (lo..=hi).collect()));
        }
        for step in 0..n {
            t = advance(&mut r, t);
            let clock = ClockScript::Frozen { t };
            let what = r.below(10);
            if what < 5 {
                // administrator
                let op = match r.below(if type_bias { 14 } else { 10 }) {
                    0 | 1 | 2 | 3 => {
                        rule_id += 1;
                        let rule = gen_rule(&mut r, rule_id, &rated, date_rule_run);
                        if let Some(k) = shape_of(&rule) { shapes_seen.push(k); }
                        let lang: String = match r.below(12) { 0 => "xx".into(), 1 | 2 => "tr".into(), _ => "en".into() };
                        if lang == "en" { live_en.push(rule.clone()); }
                        AdminOp::AddRule { lang, rule }
                    }
                    4 if date_rule_run && r.chance(1, 2) => AdminOp::SetDateRule { mdy: false },
                    4 | 5 | 6 => {
                        let lang: String = match r.below(12) { 0 => "xx".into(), 1 => "tr".into(), _ => "en".into() };
                        // (names of the library's own rule functions are no custom rules: deletion must be refused)
                        let name = if r.chance(1, 8) { r.pick(&["nosuchrule", "convert_money", "small_date", "number_on", "to_unixtime"]).to_string() } else { format!("rule{}", r.below(5)) };
                        if lang == "en" { if let Some(p) = live_en.iter().position(|x| x.name == name) { live_en.remove(p); } }
                        AdminOp::DeleteRule { lang, name }
                    }
                    7 | 10 => { let name = if r.chance(1, 10) { "memory".to_string() } else { r.pick(FAMILIES).to_string() }; if !fams_seen.iter().any(|(f, _)| *f == name) { fams_seen.push((name.clone(), vec![])); } AdminOp::AddType { name } }
                    _ => {
                        let fam = if r.chance(1, 10) { "nofamily".to_string() } else if !fams_seen.is_empty() && r.chance(2, 3) { r.pick(&fams_seen).0.clone() } else { r.pick(FAMILIES).to_string() };
                        let idx = r.usize(5);
                        if let Some(e) = fams_seen.iter_mut().find(|(f, _)| *f == fam) { if !e.1.contains(&idx) { e.1.push(idx); } }
                        AdminOp::AddTypeItem(gen_item(&mut r, &fam, idx))
                    }
                };
                events.push(Event { actor: ADMIN, op: Op::Admin(op), clock });
            } else if what < 9 {
                // client probe, aimed at what is (probably) registered two times out of three
                let lang = if r.chance(1, 8) { "tr" } else { "en" };
                let with_items: Vec<&(String, Vec<usize>)> = fams_seen.iter().filter(|(_, v)| !v.is_empty()).collect();
                let line = if r.chance(1, 3) {
                    if !with_items.is_empty() && r.chance(3, 4) {
                        let (fam, idxs) = *r.pick(&with_items);
                        let a = *r.pick(idxs);
                        let b = *r.pick(idxs);
                        let target = if r.chance(1, 3) { format!("shr{}", (b'a' + r.below(2) as u8) as char) } else { unit_name(fam, b) };
                        format!("{} {} {} {}", 3600 * (1 + r.below(50)), unit_name(fam, a), r.pick(&["to", "in", "as", "into"]), target)
                    } else {
                        let fam = *r.pick(FAMILIES);
                        format!("{} {} {} {}", 3600 * (1 + r.below(50)), unit_name(fam, r.usize(5)), r.pick(&["to", "in", "as", "into"]), unit_name(fam, r.usize(5)))
                    }
                } else if r.chance(1, 4) {
                    match aimed_compound(&mut r, &live_en, salt) { Some(l) if lang == "en" => l, _ => gen_compound(&mut r) }
                } else {
                    let k = if !shapes_seen.is_empty() && r.chance(2, 3) { *r.pick(&shapes_seen) } else { r.usize(SHAPES.len()) };
                    gen_probe(&mut r, k).0
                };
                // the operand through a variable: "vv = 2 hours" / "plonk vv"
                if let Some((lit, rest)) = split_operand(&line) {
                    if r.chance(1, 3) {
                        let text = TextSpec { lines: vec![Line::Raw(format!("vv = {}", lit)), Line::Raw(rest)], crlf: vec![false, false], trailing_nl: false };
                        events.push(Event { actor: 0, op: Op::Execute { lang: lang.into(), text }, clock });
                        continue;
                    }
                }
                if r.chance(1, 8) {
                    // another probe is evaluated INSIDE the first callback invocation of this one, on the same calculator
                    let k2 = if !shapes_seen.is_empty() && r.chance(2, 3) { *r.pick(&shapes_seen) } else { r.usize(SHAPES.len()) };
                    let inner_line = if r.chance(1, 4) { gen_compound(&mut r) } else { gen_probe(&mut r, k2).0 };
                    let inner = vec![InnerStep { at_call: 1, actor: 9, session: false, lang: "en".into(), text: TextSpec::single(Line::Raw(inner_line)), dt: 0 }];
                    events.push(Event { actor: 0, op: Op::Nested { outer: Box::new(Op::Execute { lang: lang.into(), text: TextSpec::single(Line::Raw(line)) }), inner }, clock });
                    continue;
                }
                events.push(Event { actor: 0, op: Op::Execute { lang: lang.into(), text: TextSpec::single(Line::Raw(line)) }, clock });
            } else if cp_left > 0 && step > 3 {
                cp_left -= 1;
                events.push(Event { actor: 1, op: Op::Checkpoint { probes: gen_probe_set(&mut r) }, clock });
            }
        }
        t = advance(&mut r, t);
        events.push(Event { actor: 1, op: Op::Checkpoint { probes: gen_probe_set(&mut r) }, clock: ClockScript::Frozen { t } });
        Trace { check: "C18".into(), seed, host_tz: env.host_tz.clone(), salt, mode: "registration-history".into(), events }
    }

    fn execute(&self, trace: &Trace, env: &Env) -> RunReport {
        let mut rep = RunReport::default();
        let t0 = trace.events.first().map(|e| e.clock.base()).unwrap_or(NS);
        let mut l = World::new(&env.data, trace.salt, t0);
        // P: same non-rule configuration, never any custom rule
        let mut p = World::new(&env.data, trace.salt, t0);
        // successful registrations in order, for rebuilding
        let mut type_history: Vec<AdminOp> = Vec::new();
        // instant at which each live rule (by callback id) was registered: a fresh calculator is given the
        // surviving registrations at those same instants
        let mut reg_time: BTreeMap<u32, i128> = BTreeMap::new();
        // fixed sentinel probes for "rejected calls change nothing"
        let sentinels: Vec<(String, String)> = vec![
            ("en".into(), "5 zork".into()), ("en".into(), "blip apple".into()), ("en".into(), "7 usd quux".into()), ("en".into(), "2 frob 3".into()), ("en".into(), "4 snarf".into()), ("en".into(), "6 wug 7".into()), ("en".into(), "9 due today".into()), ("en".into(), "3/3/2021 dday".into()), ("en".into(), "10 usd to try".into()), ("en".into(), "çörk 8".into()), ("en".into(), "3 zork + 2 frob 5".into()),
            ("en".into(), format!("7200 {} to {}", unit_name("famx", 3), unit_name("famx", 1))), ("en".into(), format!("7200 {} to {}", unit_name("famy", 0), unit_name("famy", 2))), ("tr".into(), "5 zork".into()),
        ];

        for (ei, ev) in trace.events.iter().enumerate() {
            match &ev.op {
                Op::Admin(op) => {
                    let before = if is_registration(op) { Some(eval_set(&l, &sentinels, &ev.clock)) } else { None };
                    let o = l.admin(op, &ev.clock);
                    let expected = l.cfg.apply(&env.data, op);
                    rep.mix_obs(&format!("{:?}", o));
                    rep.judged += 1;
                    if let AdminObs::Unwound(pi) = &o {
                        rep.violate("O-registration", format!("registration-{}", pi.key()), ei, format!("{:?} panicked: {} at {} in {}", op, pi.msg, pi.loc, pi.func));
                        continue;
                    }
                    if let Some(exp) = &expected {
                        if *exp != o {
                            rep.violate("O-registration", format!("return-value:{}", op.kind()), ei, format!("{:?} returned {:?}, the registration model says {:?}", op, o, exp));
                        }
                    }
                    if let AdminOp::SetDateRule { .. } = op {
                        // re-installing the stock date spellings: no custom rule, no family and no other line may change
                        rep.count("admin.date_rule_change");
                        if let Some(b) = before {
                            let after = eval_set(&l, &sentinels, &ev.clock);
                            if b != after {
                                let k = b.iter().zip(after.iter()).position(|(x, y)| x != y).unwrap_or(0);
                                rep.violate("O-rejected-no-change", "date-rule-call-changed-behaviour".into(), ei, format!("set_date_rule with the stock spellings changed probe {:?} from {} to {}", sentinels[k], b[k].short(), after[k].short()));
                            }
                        }
                        continue;
                    }
                    let accepted = matches!(o, AdminObs::Bool(true));
                    rep.count(if accepted { op.kind() } else { "admin.rejected" });
                    if accepted {
                        if let AdminOp::AddRule { rule, .. } = op { reg_time.insert(rule.id, ev.clock.base()); }
                        if matches!(op, AdminOp::AddType { .. } | AdminOp::AddTypeItem(_)) {
                            type_history.push(op.clone());
                            let _ = p.admin(op, &ev.clock);
                            let _ = p.cfg.apply(&env.data, op);
                        }
                    } else if let Some(b) = before {
                        // rejected: no change of behaviour
                        let after = eval_set(&l, &sentinels, &ev.clock);
                        if b != after {
                            let k = b.iter().zip(after.iter()).position(|(x, y)| x != y).unwrap_or(0);
                            rep.violate("O-rejected-no-change", format!("rejected-call-changed-behaviour:{}", op.kind()), ei, format!("{:?} was rejected ({:?}) but probe {:?} changed from {} to {}", op, o, sentinels[k], b[k].short(), after[k].short()));
                        }
                    }
                }
                Op::Execute { lang, text } => {
                    let first = match text.lines.first() { Some(Line::Raw(s)) => s.clone(), _ => continue };
                    // operand through a variable: the text is "vv = <operand>" / "<line with vv>"
                    let via_var: Option<String> = match (first.strip_prefix("vv = "), text.lines.get(1)) { (Some(lit), Some(Line::Raw(_))) => Some(lit.to_string()), _ => None };
                    let line = match (&via_var, text.lines.get(1)) { (Some(_), Some(Line::Raw(s))) => s.clone(), _ => first.clone() };
                    let full = if via_var.is_some() { format!("{}\n{}", first, line) } else { line.clone() };
                    let calls_before = l.log.borrow().len();
                    let (o, _) = l.execute(lang, &full, &ev.clock);
                    rep.evaluations += 1;
                    rep.mix_obs(&o.short());
                    let records: Vec<_> = l.log.borrow()[calls_before..].to_vec();
                    for rcd in records.iter() { if rcd.decision == Decision::Decline { rep.count("rule.decline"); } else { rep.count("probe.rule_accept"); } }
                    if let CallObs::Unwound(pi) = &o {
                        rep.violate("O-effect", format!("evaluation-{}", pi.key()), ei, format!("probe {:?} panicked: {} at {} in {}", line, pi.msg, pi.loc, pi.func));
                        continue;
                    }
                    let slot = match o.lines().and_then(|l| l.last()) { Some(s) => s.slot.clone(), None => continue };
                    if via_var.is_some() { rep.count("probe.operand_through_variable"); }
                    // family conversion probe?
                    if let Some((v, fam, s, target)) = parse_conv(&line) {
                        // the conversion connectives (to/in/as/into) exist in the English tables only
                        if let Some(items) = l.cfg.families.get(&fam).filter(|_| lang == "en") {
                            // a target given by a name several families share: the item of the source's own family
                            // (judged when exactly one item of that family carries the name)
                            let t = match &target {
                                Target::Index(t) => Some(*t),
                                Target::Shared(name) => { let c: Vec<usize> = items.iter().filter(|(_, it)| it.names.contains(name)).map(|(i, _)| *i).collect(); if c.len() == 1 && items.contains_key(&s) { rep.count("probe.shared_name_target"); Some(c[0]) } else { None } }
                            };
                            if let Some(t) = t {
                                if let Some(exp) = chain_model(items, v, s, t) {
                                    rep.judged += 1;
                                    rep.count("probe.chain_conversion");
                                    let ok = matches!(slot.val(), Some(Val::Unit { v: got, group, index, .. }) if got.0 == exp && *group == fam && *index == t);
                                    if !ok {
                                        rep.violate("O-chain", format!("family-chain:{}", if s < t { "up" } else if s > t { "down" } else { "same" }), ei, format!("{:?}: declared chain of family {} gives {} at index {}, calculator gave {}", line, fam, exp, t, slot.short()));
                                    }
                                    continue;
                                }
                            }
                        }
                        rep.unjudged += 1;
                        continue;
                    }
                    // several spots joined by operators: every spot is rewritten as it is alone, so the line's
                    // value is the same arithmetic over the values the spots have alone (on this calculator, now)
                    if let Some((spots, ops)) = split_compound(&line) {
                        // a spot counts when it is a plain number, or when exactly ONE live rule accepts it (which of
                        // several accepting rules gets a spot is not specified; a spot every rule declines is
                        // several tokens, not one operand)
                        let alone: Vec<Option<f64>> = spots.iter().map(|sp| {
                            let v = match l.execute(lang, sp, &ev.clock).0.lines().and_then(|x| x.first()).and_then(|x| x.slot.val().cloned()) { Some(Val::Num { v, .. }) => Some(v.0), _ => None };
                            if sp.chars().all(|c| c.is_ascii_digit()) { return v; }
                            let k = match SHAPES.iter().position(|(k, _)| sp.split(' ').any(|w| w == *k)) { Some(k) => k, None => return None };
                            let f = match expected_fields(k, sp, &l) { Some(f) => f, None => return None };
                            let bindings = if k == 6 { vec![f.clone(), vec![(f[0].0.clone(), f[1].1.clone()), (f[1].0.clone(), f[0].1.clone())]] } else { vec![f] };
                            let digests: Vec<u64> = bindings.iter().map(|b| { let mut b = b.clone(); b.sort_by(|x, y| x.0.cmp(&y.0)); digest_vals(&b) }).collect();
                            let acceptors = l.cfg.rules.get(lang).map(|v| v.iter().filter(|s| shape_of(s) == Some(k) && digests.iter().any(|d| crate::rules::decide(s, trace.salt, *d) == Decision::Accept)).count()).unwrap_or(0);
                            if acceptors == 1 { v } else { None }
                        }).collect();
                        rep.evaluations += spots.len() as u64;
                        if alone.iter().all(|a| a.is_some()) {
                            let vals: Vec<f64> = alone.iter().map(|a| a.unwrap()).collect();
                            let exp = fold_compound(&vals, &ops);
                            rep.judged += 1;
                            rep.count("probe.compound_line");
                            let got = match slot.val() { Some(Val::Num { v, .. }) => Some(v.0), _ => None };
                            if got != Some(exp) {
                                rep.violate("O-effect", "compound-line".into(), ei, format!("line {:?}: its spots evaluate alone to {:?}, so the line is {} - the calculator gave {}", line, vals, exp, slot.short()));
                            }
                        } else { rep.unjudged += 1; }
                        continue;
                    }
                    // rule probe: expected call sequence
                    let lower = line.to_lowercase();
                    if lower != line { rep.count("probe.keyword_in_other_case"); }
                    let orig_line = full.clone();
                    // which pattern matches is decided by the operand's value: look at the line with the operand in place
                    let line = match &via_var { Some(lit) => lower.replacen("vv", &lit.to_lowercase(), 1), None => lower };
                    let kw = SHAPES.iter().position(|(k, _)| line.split(|c: char| !c.is_alphabetic()).any(|w| w == *k));
                    // (shape "due": the pattern's "today" is the day of the registration - in English; in a Turkish pattern it is a plain word)
                    // the day the line's clock word denotes: today, tomorrow (+1) or yesterday (-1)
                    let today = crate::clock::utc_days(ev.clock.base()) + if line.ends_with(" tomorrow") { 1 } else if line.ends_with(" yesterday") { -1 } else { 0 };
                    let live: Vec<RuleSpec> = match kw { Some(k) => l.cfg.rules.get(lang).map(|v| v.iter().filter(|s| shape_of(s) == Some(k) && (k != 11 || lang != "en" || reg_time.get(&s.id).map(|t| crate::clock::utc_days(*t)) == Some(today))).cloned().collect()).unwrap_or_default(), None => vec![] };
                    if kw == Some(11) && l.cfg.rules.get(lang).map(|v| v.iter().any(|s| shape_of(s) == Some(11))).unwrap_or(false) { rep.count(if live.is_empty() { "probe.pattern_today_is_another_day" } else { "probe.pattern_today_is_today" }); }
                    // the duration words of the probes are English: in another language "40 minutes" is no duration
                    let fields: Option<Vec<Vec<(String, Val)>>> = kw.filter(|k| !(*k == 8 && lang != "en")).filter(|k| !(*k == 11 && lang != "en" && !line.ends_with(" today"))).and_then(|k| expected_fields(k, &line, &l)).map(|f| {
                        // through a variable the rule receives the variable itself, not its value
                        let f: Vec<(String, Val)> = if via_var.is_some() { f.into_iter().map(|(n, _)| (n, Val::Other(format!("{:?}", "VARIABLE")))).collect() } else { f };
                        // shape "wug": the second pattern binds the same two numbers the other way round
                        if kw == Some(6) { let swapped = vec![(f[0].0.clone(), f[1].1.clone()), (f[1].0.clone(), f[0].1.clone())]; vec![f, swapped] } else { vec![f] }
                    });
                    rep.judged += 1;
                    let (po, _) = p.execute(lang, &orig_line, &ev.clock);
                    let pslot = po.lines().and_then(|l| l.last()).map(|s| s.slot.clone());
                    match fields {
                        None => {
                            // near miss: nothing may be called, the line is as without rules
                            if !records.is_empty() {
                                rep.violate("O-effect", "near-miss-called".into(), ei, format!("line {:?} matches no registered pattern but rule(s) {:?} were called", line, records.iter().map(|r| r.rule_id).collect::<Vec<_>>()));
                            } else if Some(&slot) != pslot.as_ref() {
                                rep.violate("O-effect", "near-miss-differs".into(), ei, format!("line {:?} matches no registered pattern but evaluates to {} instead of {}", line, slot.short(), pslot.map(|s| s.short()).unwrap_or_default()));
                            }
                        }
                        Some(bindings) => {
                            // walk the live rules of this shape in registration order; within a rule every pattern
                            // that matches is tried in order until the rule accepts one binding
                            let digests: Vec<(Vec<(String, Val)>, u64)> = bindings.iter().map(|f| { let mut f = f.clone(); f.sort_by(|a, b| a.0.cmp(&b.0)); let d = digest_vals(&f); (f, d) }).collect();
                            let mut exp_calls: Vec<(u32, Decision)> = Vec::new();
                            let mut exp_fields: Vec<Vec<(String, Val)>> = Vec::new();
                            let mut accepted: Option<(RuleSpec, Vec<(String, Val)>)> = None;
                            'rules: for spec in live.iter() {
                                for (f, d) in digests.iter() {
                                    let dec = crate::rules::decide(spec, trace.salt, *d);
                                    // the same declined question once (see the observed side below)
                                    if dec == Decision::Decline && exp_calls.iter().zip(exp_fields.iter()).any(|(c, ef)| *c == (spec.id, dec) && ef == f) { continue; }
                                    exp_calls.push((spec.id, dec));
                                    exp_fields.push(f.clone());
                                    if dec == Decision::Accept { accepted = Some((spec.clone(), f.clone())); break 'rules; }
                                }
                            }
                            if digests.len() > 1 && exp_calls.len() > 1 && accepted.is_some() { rep.count("probe.second_binding_reached"); }
                            // a declined question may be asked again on a later pass of the rewrite loop (another rule
                            // rewrote something in between): repetitions of the same declined question carry no information
                            let records: Vec<crate::rules::CallRecord> = { let mut v: Vec<crate::rules::CallRecord> = Vec::new(); for r in records.iter() { if r.decision == Decision::Decline && v.iter().any(|x| x == r) { continue; } v.push(r.clone()); } v };
                            let got_calls: Vec<(u32, Decision)> = records.iter().map(|r| (r.rule_id, r.decision)).collect();
                            // after an accept the rewrite loop runs again and may call later rules on the
                            // rewritten line; only the prefix up to the first accept is specified
                            let got_prefix: Vec<(u32, Decision)> = { let mut v = Vec::new(); for c in got_calls.iter() { v.push(*c); if c.1 == Decision::Accept { break; } } v };
                            if got_prefix != exp_calls {
                                rep.violate("O-effect", "call-sequence".into(), ei, format!("line {:?} (lang {}): live rules of this shape in registration order predict calls {:?}, observed {:?}", line, lang, exp_calls, got_calls));
                                continue;
                            }
                            for (rcd, ef) in records.iter().take(got_prefix.len()).zip(exp_fields.iter()) {
                                if rcd.fields != *ef {
                                    rep.violate("O-effect", "field-binding".into(), ei, format!("line {:?}: rule {} received fields {:?}, expected {:?}", line, rcd.rule_id, rcd.fields, ef));
                                }
                            }
                            let accepted_fields = accepted.as_ref().map(|(_, f)| f.clone()).unwrap_or_default();
                            let accepted = accepted.map(|(s, _)| s);
                            let digest = (accepted_fields, 0u64);
                            match accepted {
                                Some(spec) => {
                                    if let Some(exp) = expected_result(&spec.result, &digest.0) {
                                        let ok = slot.val() == Some(&exp);
                                        if !ok { rep.violate("O-effect", "result-token".into(), ei, format!("line {:?}: rule {} ({}) returned {:?} but the line evaluates to {}", line, spec.id, spec.name, exp, slot.short())); }
                                    }
                                }
                                None => {
                                    if !live.is_empty() { rep.count("probe.all_declined"); }
                                    if Some(&slot) != pslot.as_ref() {
                                        rep.violate("O-effect", "decline-not-transparent".into(), ei, format!("line {:?}: every matching rule declined (or none is live) but the line evaluates to {} instead of {} (calculator without custom rules)", line, slot.short(), pslot.map(|s| s.short()).unwrap_or_default()));
                                    }
                                }
                            }
                        }
                    }
                }
                Op::Nested { outer, inner } => {
                    // a probe evaluated inside a callback invocation of another probe: both must evaluate exactly
                    // as they do alone on this calculator (decisions are pure functions of rule and fields)
                    let (lang, line) = match &**outer { Op::Execute { lang, text } => match text.lines.first() { Some(Line::Raw(s)) => (lang.clone(), s.clone()), _ => continue }, _ => continue };
                    let calls: Vec<crate::world::InnerCall> = inner.iter().enumerate().filter_map(|(idx, st)| match st.text.lines.first() { Some(Line::Raw(s)) => Some(crate::world::InnerCall { idx, at_call: st.at_call, actor: st.actor, session: false, lang: st.lang.clone(), text: s.clone(), t: ev.clock.base() + st.dt }), _ => None }).collect();
                    let inner_lines: Vec<(String, String, i128)> = calls.iter().map(|c| (c.lang.clone(), c.text.clone(), c.t)).collect();
                    let (o, _, results) = l.run_nested(None, &lang, &line, &ev.clock, calls);
                    rep.evaluations += 1 + results.len() as u64;
                    rep.mix_obs(&o.short());
                    let (alone, _) = l.execute(&lang, &line, &ev.clock);
                    rep.judged += 1;
                    if o != alone { rep.violate("O-effect", "nested-outer-differs".into(), ei, format!("probe {:?} evaluated while another probe ran inside its callback gave {} but alone {}", line, o.short(), alone.short())); }
                    for res in results.iter() {
                        let (il, it, t) = &inner_lines[res.idx];
                        if res.fired_in_call.is_some() { rep.count("sched.step_inside_callback"); } else { rep.count("probe.nested_not_reached"); continue; }
                        let (alone, _) = l.execute(il, it, &ClockScript::Frozen { t: *t });
                        rep.judged += 1;
                        rep.mix_obs(&res.obs.short());
                        if res.obs != alone { rep.violate("O-effect", "nested-inner-differs".into(), ei, format!("probe {:?} evaluated inside a callback invocation of {:?} gave {} but alone {}", it, line, res.obs.short(), alone.short())); }
                    }
                }
                Op::Checkpoint { probes } => {
                    // fresh calculator, survivors only, original relative order
                    let mut f = World::new(&env.data, trace.salt, ev.clock.base());
                    for op in type_history.iter() { let _ = f.admin(op, &ev.clock); let _ = f.cfg.apply(&env.data, op); }
                    let mut n_surv = 0;
                    for (lang, list) in l.cfg.rules.iter() {
                        for spec in list.iter() {
                            let op = AdminOp::AddRule { lang: lang.clone(), rule: spec.clone() };
                            // registered at the instant of the original registration (a pattern may contain clock words)
                            let when = ClockScript::Frozen { t: reg_time.get(&spec.id).cloned().unwrap_or(ev.clock.base()) };
                            let _ = f.admin(&op, &when);
                            n_surv += 1;
                        }
                    }
                    rep.count("probe.checkpoint");
                    rep.add("probe.survivor_rules", n_surv);
                    let a = eval_set(&l, probes, &ev.clock);
                    let b = eval_set(&f, probes, &ev.clock);
                    rep.evaluations += probes.len() as u64;
                    for (k, (x, y)) in a.iter().zip(b.iter()).enumerate() {
                        rep.judged += 1;
                        rep.mix_obs(&x.short());
                        if x != y {
                            rep.violate("O-survivors", "survivors-differ".into(), ei, format!("after the registration history the long-lived calculator evaluates {:?} to {} but a fresh calculator with only the {} surviving rules (same order) and families gives {}", probes[k], x.short(), n_surv, y.short()));
                            break;
                        }
                    }
                    rep.states.insert(crate::prng::fnv64(format!("{:?}|{:?}", l.cfg.rules.iter().map(|(k, v)| (k.clone(), v.iter().map(|s| (shape_of(s), s.name.clone())).collect::<Vec<_>>())).collect::<Vec<_>>(), l.cfg.families.iter().map(|(k, v)| (k.clone(), v.keys().cloned().collect::<Vec<_>>())).collect::<Vec<_>>()).as_bytes()));
                }
                _ => {}
            }
        }
        if let (Some(a), Some(b)) = (trace.events.first(), trace.events.last()) { rep.sim_span_s = (b.clock.base() - a.clock.base()) as f64 / 1e9; }
        rep
    }
}

fn is_registration(op: &AdminOp) -> bool {
    matches!(op, AdminOp::AddRule { .. } | AdminOp::DeleteRule { .. } | AdminOp::AddType { .. } | AdminOp::AddTypeItem(_) | AdminOp::SetDateRule { .. })
}

fn eval_set(w: &World, probes: &[(String, String)], clk: &ClockScript) -> Vec<CallObs> {
    probes.iter().map(|(lang, line)| w.execute(lang, line, clk).0).collect()
}

/// "A op B [op C]" with op in + - * (blank separated) -> (spots, operators)
fn split_compound(line: &str) -> Option<(Vec<String>, Vec<char>)> {
    let words: Vec<&str> = line.split(' ').collect();
    if !words.iter().any(|w| ["+", "-", "*"].contains(w)) { return None; }
    let mut spots = Vec::new();
    let mut ops = Vec::new();
    let mut cur: Vec<&str> = Vec::new();
    for w in words {
        if ["+", "-", "*"].contains(&w) { if cur.is_empty() { return None; } spots.push(cur.join(" ")); cur.clear(); ops.push(w.chars().next().unwrap()); } else { cur.push(w); }
    }
    if cur.is_empty() { return None; }
    spots.push(cur.join(" "));
    Some((spots, ops))
}

/// usual precedence: * before + and -, left to right
fn fold_compound(vals: &[f64], ops: &[char]) -> f64 {
    let mut terms: Vec<f64> = vec![vals[0]];
    let mut adds: Vec<char> = Vec::new();
    for (i, op) in ops.iter().enumerate() {
        if *op == '*' { let last = terms.last_mut().unwrap(); *last *= vals[i + 1]; } else { adds.push(*op); terms.push(vals[i + 1]); }
    }
    let mut acc = terms[0];
    for (i, op) in adds.iter().enumerate() { if *op == '+' { acc += terms[i + 1]; } else { acc -= terms[i + 1]; } }
    acc
}

enum Target { Index(usize), Shared(String) }

/// "N famXa to famXb" / "N famXa to shrb" -> (N, family, index a, target)
fn parse_conv(line: &str) -> Option<(f64, String, usize, Target)> {
    let parts: Vec<&str> = line.split(' ').collect();
    if parts.len() != 4 { return None; }
    let v: f64 = parts[0].parse().ok()?;
    if !["to", "in", "as", "into"].contains(&parts[2]) { return None; }
    let f = |u: &str| -> Option<(String, usize)> {
        for fam in FAMILIES {
            if let Some(rest) = u.strip_prefix(fam) {
                if rest.len() == 1 { return Some((fam.to_string(), (rest.as_bytes()[0] - b'a') as usize)); }
            }
        }
        None
    };
    let (fa, a) = f(parts[1])?;
    if parts[3].starts_with("shr") && parts[3].len() == 4 { return Some((v, fa, a, Target::Shared(parts[3].to_string()))); }
    let (fb, b) = f(parts[3])?;
    if fa != fb { return None; }
    Some((v, fa, a, Target::Index(b)))
}

/// the fields a rule of shape k must receive for this line (None = the line does not match the shape)
fn expected_fields(k: usize, line: &str, l: &World) -> Option<Vec<(String, Val)>> {
    if k == 9 {
        // "<n> famx<i> dibs": matches when the quantity belongs to the user family famx (an item that exists)
        let words: Vec<&str> = line.split(' ').collect();
        if words.len() != 3 || words[2] != "dibs" || !words[0].chars().all(|c| c.is_ascii_digit()) || words[0].is_empty() { return None; }
        let rest = words[1].strip_prefix("famx")?;
        if rest.len() != 1 { return None; }
        let idx = (rest.as_bytes()[0] as i32 - b'a' as i32) as usize;
        let item = l.cfg.families.get("famx")?.get(&idx)?;
        return Some(vec![("q".to_string(), Val::Unit { v: F(words[0].parse().ok()?), group: "famx".into(), index: idx, unit: item.names.first().cloned().unwrap_or_default() })]);
    }
    expected_fields_plain(k, line)
}

fn expected_fields_plain(k: usize, line: &str) -> Option<Vec<(String, Val)>> {
    let words: Vec<&str> = line.split(' ').collect();
    let num = |s: &str| -> Option<f64> { if s.chars().all(|c| c.is_ascii_digit()) && !s.is_empty() { s.parse().ok() } else { None } };
    let n = |v: f64| Val::Num { v: F(v), ty: "Decimal".into() };
    let money = |v: f64| Val::Money { v: F(v), code: "USD".into() };
    match k {
        0 => {
            if words.len() != 2 { return None; }
            if words[0] == "zork" { num(words[1]).map(|v| vec![("n".to_string(), n(v))]) } else if words[1] == "zork" { num(words[0]).map(|v| vec![("n".to_string(), n(v))]) } else { None }
        }
        1 => if words.len() == 2 && words[0] == "blip" && words[1].chars().all(|c| c.is_alphabetic()) { Some(vec![("w".to_string(), Val::Other(format!("Text({})", words[1].to_lowercase())))]) } else { None },
        2 => {
            // "<m> usd quux" | "$<m> quux"
            if words.len() == 3 && words[1] == "usd" && words[2] == "quux" { num(words[0]).map(|v| vec![("m".to_string(), money(v))]) }
            else if words.len() == 2 && words[1] == "quux" && words[0].starts_with('$') { num(&words[0][1..]).map(|v| vec![("m".to_string(), money(v))]) }
            else { None }
        }
        3 => if words.len() == 3 && words[1] == "frob" { match (num(words[0]), num(words[2])) { (Some(a), Some(b)) => Some(vec![("a".to_string(), n(a)), ("b".to_string(), n(b))]), _ => None } } else { None },
        4 => {
            let pct = |s: &str| -> Option<f64> { s.strip_suffix('%').and_then(num) };
            if words.len() != 3 { return None; }
            if words[0] == "glorp" && words[2] == "glorp" { pct(words[1]).map(|v| vec![("p".to_string(), Val::Pct(F(v)))]) }
            else if words[1] == "glorp" && words[2] == "glorp" { pct(words[0]).map(|v| vec![("p".to_string(), Val::Pct(F(v)))]) }
            else { None }
        }
        6 => if words.len() == 3 && words[1] == "wug" { match (num(words[0]), num(words[2])) { (Some(a), Some(b)) => Some(vec![("a".to_string(), n(a)), ("b".to_string(), n(b))]), _ => None } } else { None },
        7 => if words.len() == 2 && words[0] == "çörk" { num(words[1]).map(|v| vec![("n".to_string(), n(v))]) } else { None },
        // the pattern holds the DATE its "today" denoted at registration; a line matches when its clock word denotes that date
        11 => if words.len() == 3 && words[1] == "due" && ["today", "tomorrow", "yesterday"].contains(&words[2]) { num(words[0]).map(|v| vec![("n".to_string(), n(v))]) } else { None },
        8 => if words.len() == 3 && words[0] == "plonk" { let len = match words[2] { "hours" | "hour" => 3600, "minutes" | "minute" => 60, _ => return None }; num(words[1]).map(|v| vec![("d".to_string(), Val::Dur { secs: v as i64 * len, nanos: 0 })]) } else { None },
        10 => if words.len() == 2 && words[1] == "dday" {
            let p: Vec<&str> = words[0].split('/').collect();
            if p.len() != 3 { return None; }
            let (d, m, y) = (num(p[0])? as u32, num(p[1])? as u32, num(p[2])? as i64);
            if m < 1 || m > 12 || d < 1 || d > crate::clock::days_in_month(y, m) { return None; }
            Some(vec![("d".to_string(), Val::Date { days: crate::clock::days_from_civil(y, m, d), zone: "UTC".into(), off: 0 })])
        } else { None },
        _ => if words.len() == 2 && words[1] == "snarf" { num(words[0]).map(|v| vec![("coin".to_string(), Val::Other("Text(snarf)".to_string())), ("n".to_string(), n(v))]) } else { None },
    }
}

#[allow(dead_code)]
fn unused(_: F) {}
