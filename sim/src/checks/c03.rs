//! C03 — a text is a straight-line program: later lines see the latest binding.
//!
//! Simulation: 1..3 session clients run generated programs (bindings,
//! re-bindings, self-referential re-bindings, copies, negated uses, uses inside
//! phrases, failing lines between a binding and its use) over a vetted pool of
//! one- and multi-word names with values of all seven kinds; the programs are
//! delivered in chunks through set_text, interleaved by a seeded scheduler with
//! each other and with one-shot multi-line programs, the clock advancing
//! between events.  Oracle: executable environment model (value semantics,
//! longest-name precedence, case-insensitive names, failed lines leave the
//! environment untouched).

use crate::checks::sem::{run_semantic, SemOpts};
use crate::checks::{Check, Env, RunReport};
use crate::clock::ClockScript;
use crate::gen::clocks::{advance, base_instant};
use crate::gen::sem::SemGen;
use crate::lang::*;
use crate::prng::Rng;
use crate::trace::{Event, Line, Op, TextSpec, Trace};

pub struct C03;

#[derive(Clone, Copy, PartialEq, Debug)]
enum Kind { Num, Pct, Money, Dur, Date, Time, Unit }

const KINDS: &[Kind] = &[Kind::Num, Kind::Num, Kind::Pct, Kind::Money, Kind::Dur, Kind::Date, Kind::Time, Kind::Unit];
/// kinds whose literals and uses are spelled the same in every language
const KINDS_TR: &[Kind] = &[Kind::Num, Kind::Num, Kind::Num, Kind::Pct];

fn literal(r: &mut Rng, g: &SemGen, k: Kind) -> Expr {
    Expr::Lit(match k {
        Kind::Num => Lit::Num(g.num(r)),
        Kind::Pct => Lit::Pct { n: g.small_num(r), prefix: r.chance(1, 3) },
        Kind::Money => Lit::Money(g.money(r)),
        Kind::Dur => g.dur_clock(r, "en"),
        Kind::Date => {
            if r.chance(1, 8) { g.rel_day(r, "en") } else {
                let y = 1900 + r.below(300) as i64;
                let m = 1 + r.below(12) as u32;
                let d = 1 + r.below(crate::clock::days_in_month(y, m) as u64) as u32;
                Lit::Date(g.date_lit(r, "en", y, m, d, false))
            }
        }
        Kind::Time => { let z = r.chance(1, 3); Lit::Time(g.time_lit(r, z)) }
        Kind::Unit => { let n = g.small_num(r); g.unit(r, n) }
    })
}

/// an expression of kind k that uses the variable `v` (of kind k)
fn use_expr(r: &mut Rng, g: &SemGen, k: Kind, v: Expr) -> Expr {
    let b = Box::new;
    match k {
        Kind::Num => match r.below(5) {
            0 => v,
            1 => Expr::Bin { l: b(v), op: *r.pick(&['+', '-', '*']), r: b(Expr::Lit(Lit::Num(g.small_num(r)))), tight: r.chance(1, 5) },
            2 => Expr::Bin { l: b(Expr::Lit(Lit::Num(g.small_num(r)))), op: *r.pick(&['+', '-', '*']), r: b(v), tight: false },
            3 => Expr::Neg(b(v)),
            _ => Expr::Bin { l: b(Expr::Paren(b(Expr::Bin { l: b(v), op: '+', r: b(Expr::Lit(Lit::Num(g.small_num(r)))), tight: false }))), op: '*', r: b(Expr::Lit(Lit::Num(NumLit::int(2)))), tight: false },
        },
        Kind::Pct => match r.below(3) { 0 => v, _ => Expr::Bin { l: b(Expr::Lit(Lit::Num(g.pos_int(r, 1000)))), op: *r.pick(&['+', '-']), r: b(v), tight: false } },
        Kind::Money => match r.below(4) {
            0 => v,
            1 => Expr::Bin { l: b(v), op: '*', r: b(Expr::Lit(Lit::Num(g.small_num(r)))), tight: false },
            2 => { let code = g.rated_code(r); let word = g.currency_word(r, &code); Expr::ToCur { e: b(v), conn: Some(r.pick(&["to", "in", "as", "into"]).to_string()), word, code } }
            _ => Expr::Bin { l: b(v), op: *r.pick(&['+', '-']), r: b(Expr::Lit(Lit::Money(g.money(r)))), tight: false },
        },
        Kind::Dur => match r.below(2) { 0 => v, _ => Expr::Bin { l: b(v), op: '+', r: b(Expr::Lit(g.dur_clock(r, "en"))), tight: false } },
        Kind::Date => match r.below(3) { 0 => v, 1 => Expr::Bin { l: b(v), op: *r.pick(&['+', '-']), r: b(Expr::Lit(g.dur_days(r, "en", 29))), tight: false }, _ => {
            let y = 1950 + r.below(150) as i64; let m = 1 + r.below(12) as u32; let d = 1 + r.below(28) as u32;
            Expr::Between { a: b(v), b: b(Expr::Lit(Lit::Date(g.date_lit(r, "en", y, m, d, false)))) }
        } },
        Kind::Time => match r.below(2) { 0 => v, _ => Expr::Bin { l: b(v), op: *r.pick(&['+', '-']), r: b(Expr::Lit(g.dur_clock(r, "en"))), tight: false } },
        Kind::Unit => match r.below(2) { 0 => v, _ => Expr::Bin { l: b(v), op: '*', r: b(Expr::Lit(Lit::Num(g.pos_int(r, 20)))), tight: false } },
    }
}

/// an expression over TWO variables of kind k (the result has kind k unless it is a difference/ratio)
fn two_var_expr(r: &mut Rng, k: Kind, a: Expr, c: Expr, for_assign: bool) -> Expr {
    let b = Box::new;
    match k {
        Kind::Num => Expr::Bin { l: b(a), op: *r.pick(&['+', '-', '*']), r: b(c), tight: r.chance(1, 6) },
        Kind::Money => if for_assign || r.chance(2, 3) { Expr::Bin { l: b(a), op: *r.pick(&['+', '-']), r: b(c), tight: false } } else { Expr::Bin { l: b(a), op: '/', r: b(c), tight: false } },
        Kind::Dur => Expr::Bin { l: b(a), op: '+', r: b(c), tight: false },
        // (two clock times: the model judges the difference only when both were anchored on the same day)
        Kind::Date | Kind::Time => if for_assign { a } else { Expr::Between { a: b(a), b: b(c) } },
        Kind::Unit => Expr::Bin { l: b(a), op: *r.pick(&['+', '-']), r: b(c), tight: false },
        Kind::Pct => a,
    }
}

fn failing(r: &mut Rng, tr: bool) -> String {
    // the type errors are spelled with English duration words; elsewhere only the syntax errors
    match if tr { *r.pick(&[0u64, 1, 3]) } else { r.below(5) } {
        0 => format!("{} +", r.below(100)),
        1 => format!("({} + {}", r.below(100), r.below(100)),
        2 => format!("{} hour + {}", 1 + r.below(5), 1 + r.below(100)),
        3 => format!("{} * ({} -", r.below(100), r.below(100)),
        _ => format!("{} minutes + {}", 2 + r.below(50), 1 + r.below(100)),
    }
}

struct Prog { pool: Vec<NameUse>, kinds: Vec<Option<Kind>>, tr: bool }

fn gen_stmt(r: &mut Rng, g: &SemGen, p: &mut Prog, faults: bool) -> Stmt {
    let bound: Vec<usize> = (0..p.pool.len()).filter(|i| p.kinds[*i].is_some()).collect();
    let what = if bound.is_empty() { 0 } else { r.below(12) };
    let unbound: Vec<usize> = (0..p.pool.len()).filter(|i| p.kinds[*i].is_none()).collect();
    if !unbound.is_empty() && r.chance(1, 12) {
        // a name used BEFORE it is bound (not judged: the statement defines names after their binding); the
        // very same line comes again later, after the binding, and then has a defined value
        let i = *r.pick(&unbound);
        let v = Expr::Var(g.name_use(r, &p.pool[i].clone()));
        return Stmt::Eval(Expr::Bin { l: Box::new(v), op: *r.pick(&['*', '+']), r: Box::new(Expr::Lit(Lit::Num(g.small_num(r)))), tight: false });
    }
    match what {
        0 | 1 | 2 => { // bind / re-bind to a literal (possibly of another kind)
            let i = r.usize(p.pool.len());
            let k = if p.tr { *r.pick(KINDS_TR) } else { *r.pick(KINDS) };
            p.kinds[i] = Some(k);
            Stmt::Assign { name: g.name_use(r, &p.pool[i].clone()), e: literal(r, g, k) }
        }
        3 => { // copy
            let src = *r.pick(&bound);
            let dst = r.usize(p.pool.len());
            let k = p.kinds[src];
            let e = Expr::Var(g.name_use(r, &p.pool[src].clone()));
            p.kinds[dst] = k;
            Stmt::Assign { name: g.name_use(r, &p.pool[dst].clone()), e }
        }
        4 | 5 => { // computed (self-referential half of the time)
            let src = *r.pick(&bound);
            let dst = if r.chance(1, 2) { src } else { r.usize(p.pool.len()) };
            let k = p.kinds[src].unwrap();
            let v = Expr::Var(g.name_use(r, &p.pool[src].clone()));
            let same: Vec<usize> = bound.iter().cloned().filter(|i| p.kinds[*i] == Some(k)).collect();
            let e = if same.len() >= 2 && r.chance(1, 3) {
                let other = *r.pick(&same);
                let v2 = Expr::Var(g.name_use(r, &p.pool[other].clone()));
                two_var_expr(r, k, v.clone(), v2, true)
            } else { loop {
                let e = use_expr(r, g, k, v.clone());
                // keep the kind of the result equal to the kind of the source
                if !matches!(e, Expr::Between { .. }) && !(k == Kind::Pct && matches!(e, Expr::Bin { .. })) { break e; }
            } };
            p.kinds[dst] = Some(k);
            Stmt::Assign { name: g.name_use(r, &p.pool[dst].clone()), e }
        }
        6 if faults => Stmt::Fail { text: failing(r, p.tr) },
        7 if faults => { // failing assignment to an existing or new name: must leave the environment unchanged
            let i = r.usize(p.pool.len());
            Stmt::FailAssign { name: g.name_use(r, &p.pool[i].clone()), rhs: failing(r, p.tr) }
        }
        _ => { // use
            let src = *r.pick(&bound);
            let k = p.kinds[src].unwrap();
            let v = Expr::Var(g.name_use(r, &p.pool[src].clone()));
            let same: Vec<usize> = bound.iter().cloned().filter(|i| p.kinds[*i] == Some(k)).collect();
            let nums: Vec<usize> = bound.iter().cloned().filter(|i| p.kinds[*i] == Some(Kind::Num)).collect();
            if same.len() >= 2 && r.chance(1, 3) {
                // two variables in one line (possibly a name and a longer name that starts with it)
                let other = *r.pick(&same);
                let v2 = Expr::Var(g.name_use(r, &p.pool[other].clone()));
                Stmt::Eval(two_var_expr(r, k, v, v2, false))
            } else if k == Kind::Pct && !nums.is_empty() && r.chance(1, 2) {
                let ni = *r.pick(&nums); let nv = Expr::Var(g.name_use(r, &p.pool[ni].clone()));
                Stmt::Eval(Expr::Bin { l: Box::new(nv), op: *r.pick(&['+', '-']), r: Box::new(v), tight: false })
            } else if k == Kind::Num && r.chance(1, 8) {
                // the name supplies the amount of a unit quantity: "distance km"
                if let Lit::Unit { word, family, index, .. } = g.unit(r, NumLit::int(1)) { Stmt::Eval(Expr::UnitOf { e: Box::new(v), word, family, index }) } else { Stmt::Eval(v) }
            } else if matches!(k, Kind::Money | Kind::Unit) && !nums.is_empty() && r.chance(1, 4) {
                let ni = *r.pick(&nums); let nv = Expr::Var(g.name_use(r, &p.pool[ni].clone()));
                Stmt::Eval(Expr::Bin { l: Box::new(v), op: '*', r: Box::new(nv), tight: false })
            } else {
                Stmt::Eval(use_expr(r, g, k, v))
            }
        }
    }
}

impl Check for C03 {
    fn id(&self) -> &'static str { "C03" }

    fn rule(&self) -> &'static str {
        "one run = 1..3 session clients and a one-shot client running generated straight-line programs over a shared name pool (one/multi-word, prefixes, case variants; seven value kinds), delivered in seeded chunks and interleaved by a seeded scheduler, clock advancing between events; non-trivial = at least one model-judged line AND at least one fired fault (failing line between binding and use, session text swap / recreate, clock advance over midnight); distinct = distinct trace hash"
    }

    fn budget(&self, tier: &str) -> u64 { if tier == "thorough" { 40_000 } else { 4_000 } }

    fn generate(&self, seed: u64, tier: &str, env: &Env) -> Trace {
        let mut r = Rng::new(seed);
        // thorough tier: half of the runs are three times as long (deeper histories)
        let dm: u64 = if tier == "thorough" && seed % 2 == 0 { 3 } else { 1 };
        let g = SemGen::new(&env.data);
        let mut t = base_instant(&mut r, &env.host_rule);
        let faults = !r.chance(1, 5);
        let k = 1 + r.usize(if dm > 1 { 5 } else { 3 });
        let np = 3 + r.usize(4);
        let shared_pool = g.name_pool(&mut r, np);
        struct Cl { session: bool, live: bool, prog: Prog, steps: u64, history: Vec<Line> }
        let mut cls: Vec<Cl> = (0..k).map(|i| {
            let pool = if r.chance(1, 2) { shared_pool.clone() } else { let n = 3 + r.usize(3); g.name_pool(&mut r, n) };
            let n = pool.len();
            let tr = r.chance(1, 5);
            Cl { session: i > 0 || r.chance(2, 3), live: false, prog: Prog { pool, kinds: vec![None; n], tr }, steps: (3 + r.below(8)) * dm, history: vec![] }
        }).collect();
        let max_chunk = *r.pick(&[1usize, 3, 6]);
        let mut events = Vec::new();
        while cls.iter().any(|c| c.steps > 0) {
            t = advance(&mut r, t);
            let clock = ClockScript::Frozen { t };
            let live: Vec<usize> = (0..cls.len()).filter(|i| cls[*i].steps > 0).collect();
            let who = *r.pick(&live);
            let c = &mut cls[who];
            c.steps -= 1;
            if c.session && (!c.live || (faults && r.chance(1, 14))) {
                c.live = true;
                c.history.clear();
                for k in c.prog.kinds.iter_mut() { *k = None; }
                events.push(Event { actor: who as u8, op: Op::SessionNew { lang: if c.prog.tr { "tr".into() } else { "en".into() } }, clock: clock.clone() });
            }
            if !c.session { for k in c.prog.kinds.iter_mut() { *k = None; } }
            let n = if c.session { 1 + r.usize(max_chunk) } else { 3 + r.usize(8) };
            let mut lines = Vec::new();
            for _ in 0..n {
                // now and then the very same use line again (after whatever re-bindings came in between):
                // a result remembered per line text would be stale
                let earlier: Vec<Line> = lines.iter().chain(c.history.iter()).filter(|l| matches!(l, Line::Sem(Stmt::Eval(_)))).cloned().collect();
                if !earlier.is_empty() && r.chance(1, 6) { lines.push(r.pick(&earlier).clone()); continue; }
                lines.push(Line::Sem(gen_stmt(&mut r, &g, &mut c.prog, faults)));
            }
            if c.session { c.history.extend(lines.iter().cloned()); if c.history.len() > 12 { let cut = c.history.len() - 12; c.history.drain(..cut); } }
            if r.chance(1, 10) { lines.insert(r.usize(lines.len() + 1), Line::Raw(String::new())); }
            let crlf = (0..lines.len()).map(|_| r.chance(1, 6)).collect();
            let text = TextSpec { lines, crlf, trailing_nl: r.chance(1, 10) };
            let op = if c.session { Op::SessionText { text } } else { Op::Execute { lang: if c.prog.tr { "tr".into() } else { "en".into() }, text } };
            events.push(Event { actor: who as u8, op, clock });
        }
        crate::gen::session_variants(&mut r, &mut events, 4, 10, 8);
        crate::gen::nest_variants(&mut r, &mut events);
        crate::gen::builtin_delete_variants(&mut r, &mut events, &["small_date", "convert_money", "number_on", "duration_parse"]);
        crate::gen::unwind_variants(&mut r, &mut events);
        crate::gen::decliner_variants(&mut r, &mut events);
        Trace { check: "C03".into(), seed, host_tz: env.host_tz.clone(), salt: r.next(), mode: if faults { "faults".into() } else { "fault-free".into() }, events }
    }

    fn execute(&self, trace: &Trace, env: &Env) -> RunReport {
        let mut rep = run_semantic("C03", trace, env, &SemOpts { atomicity: false, judge_admin: false, rate_probes: vec![] });
        // fault accounting: failing lines that sit between a binding and a later line
        let mut n_fail = 0;
        for e in trace.events.iter() {
            if let Op::Execute { text, .. } | Op::SessionText { text } = &e.op {
                for l in text.lines.iter() { if matches!(l, Line::Sem(Stmt::Fail { .. }) | Line::Sem(Stmt::FailAssign { .. })) { n_fail += 1; } }
            }
        }
        if n_fail > 0 { rep.add("line.fail_between_binding_and_use", n_fail); }
        rep
    }
}
