//! C14 — unix timestamps convert to and from date-times as mutual inverses.
//!
//! What the simulator owns: `<time> as unix` anchors on the current date,
//! year-less dates take the current year, the default zone is mutable
//! configuration that may change between the two halves of the inverse pair
//! held in a session.  (The suite's only test of this feature depends on the
//! year it was written in and always fails.)  Oracle: epoch model under the
//! simulated clock - seconds since 1970-01-01T00:00Z from (civil date, wall
//! time, offset) with the harness's own calendar - inverse-ness through session
//! variables, digit-exact printing of timestamps, clock atomicity.

use crate::checks::sem::{run_semantic, SemOpts};
use crate::checks::{Check, Env, RunReport};
use crate::clock::{days_in_month, ClockScript};
use crate::gen::clocks::{advance, base_instant, moving_script};
use crate::gen::sem::SemGen;
use crate::lang::*;
use crate::prng::Rng;
use crate::trace::{AdminOp, Event, Line, Op, TextSpec, Trace, ADMIN};

pub struct C14;

fn ts(r: &mut Rng) -> i64 {
    match r.below(10) {
        0 => r.below(1 << 31) as i64,
        1 => (1i64 << 31) + r.below(1 << 33) as i64,
        2 => *r.pick(&[0i64, 1, 86399, 86400, 2147483647, 2147483648, 4294967296, 951782400, 253402300799]),
        3 => -(r.below(62_000_000_000) as i64),
        4 => 253402300799 - r.below(100_000_000) as i64,
        5 => { let d = r.below(2_900_000) as i64; d * 86400 + *r.pick(&[0i64, -1, 1, 86399]) }
        _ => 1_000_000_000 + r.below(1_500_000_000) as i64,
    }
}

fn unix_word(r: &mut Rng) -> String { r.pick(&["unix", "unixtime", "unixtimestamp", "Unix"]).to_string() }
// "in" is left out: directly after a number it is the unit inch ("613639360 in date" is 613639360 inches)
fn conn_opt(r: &mut Rng) -> Option<String> { match r.below(4) { 0 => None, 1 => Some("as".into()), 2 => Some("to".into()), _ => Some("into".into()) } }

fn date_expr(r: &mut Rng, g: &SemGen) -> Expr {
    if r.chance(1, 5) { return Expr::Lit(g.rel_day(r, "en")); }
    let y = match r.below(6) { 0 => 1 + r.below(9999) as i64, 1 => *r.pick(&[1969, 1970, 2038, 2039, 2106]), _ => 1950 + r.below(200) as i64 };
    let m = 1 + r.below(12) as u32;
    let d = 1 + r.below(days_in_month(y, m) as u64) as u32;
    Expr::Lit(Lit::Date(g.date_lit(r, "en", y, m, d, true)))
}

/// a timestamp within +-14 h of 1 January of the simulated current year or the next one: the
/// year shown depends on the zone the date-time is shown in
fn new_year_ts(r: &mut Rng, t: i128) -> i64 {
    let y = crate::clock::utc_date(t).0 + r.below(2) as i64;
    crate::clock::days_from_civil(y.min(9998), 1, 1) * 86400 + r.range(-14 * 3600, 14 * 3600)
}

fn gen_line(r: &mut Rng, g: &SemGen, t: i128) -> Expr {
    let b = Box::new;
    if r.chance(1, 10) {
        let zone = if r.chance(2, 3) { Some(g.zone(r)) } else { None };
        return Expr::FromUnix { e: b(Expr::Lit(Lit::Num(NumLit::int(new_year_ts(r, t))))), conn: conn_opt(r), zone };
    }
    match r.below(10) {
        0 | 1 | 2 => { let zone = if r.chance(1, 2) { Some(g.zone(r)) } else { None }; Expr::FromUnix { e: b(Expr::Lit(Lit::Num(NumLit::int(ts(r))))), conn: conn_opt(r), zone } }
        3 | 4 | 5 => Expr::AsUnix { e: b(date_expr(r, g)), conn: conn_opt(r), word: unix_word(r) },
        6 => { let z = r.chance(1, 2); Expr::AsUnix { e: b(Expr::Lit(Lit::Time(g.time_lit(r, z)))), conn: conn_opt(r), word: unix_word(r) } }
        7 => { let tl = g.time_lit(r, false); Expr::At { d: b(date_expr(r, g)), t: b(Expr::Lit(Lit::Time(tl))) } }
        8 => Expr::At { d: b(date_expr(r, g)), t: b(Expr::Lit(Lit::Num(NumLit::int(r.below(24) as i64)))) },
        9 if r.chance(1, 4) => { let tl = g.time_lit(r, false); Expr::AsUnix { e: b(Expr::At { d: b(date_expr(r, g)), t: b(Expr::Lit(Lit::Time(tl))) }), conn: conn_opt(r), word: unix_word(r) } }
        _ => Expr::AsUnix { e: b(date_expr(r, g)), conn: conn_opt(r), word: unix_word(r) },
    }
}

impl Check for C14 {
    fn id(&self) -> &'static str { "C14" }

    fn rule(&self) -> &'static str {
        "one run = seeded sequence of timestamp lines ('N to date', 'N to ZONE', '<date|time|date at time> as unix', inverse pairs through session variables; N across 1970..9999, negative and beyond 2^31) evaluated under a scripted clock across years, with default-zone changes between the halves of an inverse pair; non-trivial = at least one judged step AND at least one fired fault (default-zone change, advance over midnight, boundary freeze, in-operation clock movement); distinct = distinct trace hash"
    }

    fn budget(&self, tier: &str) -> u64 { if tier == "thorough" { 60_000 } else { 5_000 } }

    fn generate(&self, seed: u64, tier: &str, env: &Env) -> Trace {
        let mut r = Rng::new(seed);
        // thorough tier: half of the runs are three times as long (deeper histories)
        let dm: u64 = if tier == "thorough" && seed % 2 == 0 { 3 } else { 1 };
        let g = SemGen::new(&env.data);
        let mut t = base_instant(&mut r, &env.host_rule);
        let n = (6 + r.below(16)) * dm;
        let move_rate = *r.pick(&[0u64, 2, 4]);
        let zone_rate = *r.pick(&[0u64, 1, 3]);
        let session = r.chance(1, 2);
        let pool = g.name_pool(&mut r, 3);
        // (name, what it holds: true = date-time from a timestamp, false = timestamp from a date)
        let mut bound: Vec<(NameUse, bool)> = Vec::new();
        // names that hold a plain date
        let mut date_names: Vec<NameUse> = Vec::new();
        // offset (minutes) of the default zone as the generator believes it to be (only used to aim timestamps)
        let mut cur_off: i32 = 0;
        let mut events = Vec::new();
        if session { events.push(Event { actor: 0, op: Op::SessionNew { lang: "en".into() }, clock: ClockScript::Frozen { t } }); }
        for _ in 0..n {
            t = advance(&mut r, t);
            if r.below(10) < zone_rate {
                let (tz, off) = match r.below(8) {
                    0 => ("NOPE".to_string(), None),
                    1 | 2 | 3 => { let (z, o) = g.zone(&mut r); cur_off = o; (z, Some(o)) }
                    _ => { let (z, o) = r.pick(&g.zones).clone(); cur_off = o; (z, Some(o)) }
                };
                events.push(Event { actor: ADMIN, op: Op::Admin(AdminOp::SetTimezone { tz: tz.clone() }), clock: ClockScript::Frozen { t } });
                // now and then the SAME offset right away under its other spelling (CET then GMT+1): the configured
                // zone is the one named last
                if let Some(o) = off { if r.chance(1, 3) { if let Some(z2) = g.same_offset_other_spelling(&mut r, &tz, o) { events.push(Event { actor: ADMIN, op: Op::Admin(AdminOp::SetTimezone { tz: z2 }), clock: ClockScript::Frozen { t } }); } } }
                continue;
            }
            let use_session = session && r.chance(2, 3);
            let n_lines = 1 + r.usize(3);
            let mut lines = Vec::new();
            for _ in 0..n_lines {
                if use_session && r.chance(1, 8) {
                    // a plain date held in a variable, later asked for its timestamp (under whatever default zone then is)
                    let name = r.pick(&pool).clone();
                    bound.retain(|(b, _)| b.key() != name.key());
                    date_names.retain(|b| b.key() != name.key());
                    date_names.push(name.clone());
                    lines.push(Line::Sem(Stmt::Assign { name: g.name_use(&mut r, &name), e: date_expr(&mut r, &g) }));
                } else if use_session && !date_names.is_empty() && r.chance(1, 5) {
                    let name = r.pick(&date_names).clone();
                    lines.push(Line::Sem(Stmt::Eval(Expr::AsUnix { e: Box::new(Expr::Var(g.name_use(&mut r, &name))), conn: conn_opt(&mut r), word: unix_word(&mut r) })));
                } else if use_session && r.chance(1, 3) {
                    let name = r.pick(&pool).clone();
                    date_names.retain(|b| b.key() != name.key());
                    let dt = r.chance(1, 2);
                    let e = if dt {
                        let zone = if r.chance(1, 3) { Some(g.zone(&mut r)) } else { None };
                        // a third of the instants are an exact start of day in the zone they will be shown in
                        let n = if r.chance(1, 3) { (r.below(40_000) as i64) * 86400 - zone.as_ref().map(|z| z.1).unwrap_or(cur_off) as i64 * 60 } else { ts(&mut r) };
                        Expr::FromUnix { e: Box::new(Expr::Lit(Lit::Num(NumLit::int(n)))), conn: conn_opt(&mut r), zone }
                    } else {
                        Expr::AsUnix { e: Box::new(date_expr(&mut r, &g)), conn: conn_opt(&mut r), word: unix_word(&mut r) }
                    };
                    bound.retain(|(b, _)| b.key() != name.key());
                    bound.push((name.clone(), dt));
                    lines.push(Line::Sem(Stmt::Assign { name: g.name_use(&mut r, &name), e }));
                } else if use_session && !bound.is_empty() && r.chance(1, 2) {
                    let (name, dt) = r.pick(&bound).clone();
                    let v = Box::new(Expr::Var(g.name_use(&mut r, &name)));
                    let e = if dt { Expr::AsUnix { e: v, conn: conn_opt(&mut r), word: unix_word(&mut r) } } else {
                        let zone = if r.chance(1, 3) { Some(g.zone(&mut r)) } else { None };
                        Expr::FromUnix { e: v, conn: conn_opt(&mut r), zone }
                    };
                    lines.push(Line::Sem(Stmt::Eval(e)));
                } else {
                    lines.push(Line::Sem(Stmt::Eval(gen_line(&mut r, &g, t))));
                }
            }
            let text = TextSpec { crlf: vec![false; lines.len()], lines, trailing_nl: false };
            if use_session {
                events.push(Event { actor: 0, op: Op::SessionText { text }, clock: ClockScript::Frozen { t } });
            } else {
                let clock = if r.below(10) < move_rate { moving_script(&mut r, t, 4) } else { ClockScript::Frozen { t } };
                events.push(Event { actor: 1, op: Op::Execute { lang: "en".into(), text }, clock });
            }
        }
        crate::gen::session_variants(&mut r, &mut events, 3, 12, 5);
        crate::gen::nest_variants(&mut r, &mut events);
        crate::gen::builtin_delete_variants(&mut r, &mut events, &["to_unixtime", "from_unixtime", "at_date", "small_date"]);
        crate::gen::unwind_variants(&mut r, &mut events);
        crate::gen::decliner_variants(&mut r, &mut events);
        Trace { check: "C14".into(), seed, host_tz: env.host_tz.clone(), salt: r.next(), mode: if move_rate == 0 { "frozen-in-op".into() } else { "moving-in-op".into() }, events }
    }

    fn execute(&self, trace: &Trace, env: &Env) -> RunReport {
        let mut rep = run_semantic("C14", trace, env, &SemOpts { atomicity: true, judge_admin: true, rate_probes: vec![] });
        for e in trace.events.iter() { if !e.clock.is_frozen() { rep.count("probe.moving_clock_configured"); } }
        rep
    }
}
