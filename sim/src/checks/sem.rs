//! Shared executor for the model-judged checks (C03, C06, C09, C11, C14): runs
//! a trace of one-shot and session events whose lines are structured
//! statements, keeps the environment model per evaluation context, judges every
//! line against `model::eval`, and applies the clock-atomicity oracle to
//! evaluations during which the simulated clock moved.

use std::collections::{BTreeMap, BTreeSet};

use crate::checks::{Env, RunReport};
use crate::clock::{utc_days, ClockScript, NS};
use crate::lang::{render_stmt, Stmt};
use crate::model::{agrees, eval, obs_kind, stmt_shape, Ctx, MVal, R};
use crate::obs::{CallObs, Slot};
use crate::trace::{AdminOp, Line, Op, TextSpec, Trace};
use crate::world::{AdminObs, World};

pub struct SemOpts {
    /// apply the clock-atomicity oracle to evaluations under a moving clock
    pub atomicity: bool,
    /// judge administrator return values against the configuration model
    pub judge_admin: bool,
    /// around every rate update evaluate these (lang, structured line, currencies involved) probes:
    /// those not involving the updated currency must be bit-identical before and after, the
    /// others are judged against the rate model with the updated table
    pub rate_probes: Vec<(String, Stmt, Vec<String>)>,
}

#[derive(Default, Clone)]
pub struct EnvModel {
    pub vals: BTreeMap<String, MVal>,
    /// names whose value the model does not know (first binding failed, or bound to something unjudged)
    pub poisoned: BTreeSet<String>,
}

fn names_in(e: &crate::lang::Expr, out: &mut Vec<String>) {
    use crate::lang::Expr::*;
    match e {
        Var(n) => out.push(n.key()),
        Lit(_) => {}
        Neg(x) | Paren(x) => names_in(x, out),
        Bin { l, r, .. } => { names_in(l, out); names_in(r, out); }
        ToCur { e, .. } | ToZone { e, .. } | AsUnix { e, .. } | FromUnix { e, .. } => names_in(e, out),
        Between { a, b } => { names_in(a, out); names_in(b, out); }
        At { d, t } => { names_in(d, out); names_in(t, out); }
        UnitOf { e, .. } => names_in(e, out),
    }
}

fn has_add_sub(e: &crate::lang::Expr) -> bool {
    use crate::lang::Expr::*;
    match e {
        Bin { l, op, r, .. } => *op == '+' || *op == '-' || has_add_sub(l) || has_add_sub(r),
        Neg(x) | Paren(x) => has_add_sub(x),
        ToCur { e, .. } => has_add_sub(e),
        _ => false,
    }
}

/// judge one line; returns true when it was judged
#[allow(clippy::too_many_arguments)]
pub fn judge_line(rep: &mut RunReport, ei: usize, prop: &str, stmt: &Stmt, text: &str, slot: &Slot, envm: &mut EnvModel, w: &World, env: &Env, t: i128) -> bool {
    let ctx = Ctx { env: &envm.vals, rates: &w.cfg.rates, today: utc_days(t), now: t.div_euclid(NS) as i64, zone: w.cfg.zone.clone(), data: &env.data };
    crate::model::CURRENT_YEAR.with(|c| c.set(crate::clock::utc_date(t).0));
    let uses_poisoned = |e: &crate::lang::Expr| -> bool { let mut v = Vec::new(); names_in(e, &mut v); v.iter().any(|n| envm.poisoned.contains(n)) };
    let mut shape = stmt_shape(stmt);
    crate::model::OPERAND_SCALE.with(|s| s.set(0.0));
    if let Stmt::Eval(e) | Stmt::Assign { e, .. } = stmt {
        if let Some(c) = crate::model::date_arith_class(e, &ctx) { shape = c; }
        // only sums and differences cancel; products and quotients keep the plain relative tolerance
        if has_add_sub(e) { let m = crate::model::operand_scale(e, &ctx); crate::model::OPERAND_SCALE.with(|s| s.set(m)); }
    }
    let mismatch = |rep: &mut RunReport, what: &str, expected: String| {
        rep.violate("O-model", format!("{}:{}:{}", prop, what, shape), ei, format!("line {:?} [{}]: the model says {}, the calculator gave {} (simulated instant {})", text, shape, expected, slot.short(), crate::clock::fmt_instant(t)));
    };
    match stmt {
        Stmt::Fail { .. } => {
            if !slot.is_err() { mismatch(rep, "must-fail", "the line fails to evaluate".into()); }
            true
        }
        Stmt::FailAssign { name, .. } => {
            if !slot.is_err() { mismatch(rep, "must-fail", "the assignment fails to evaluate".into()); }
            // a failed first binding leaves the name unspecified until it is successfully bound
            if !envm.vals.contains_key(&name.key()) { envm.poisoned.insert(name.key()); }
            true
        }
        Stmt::Eval(e) => {
            if uses_poisoned(e) { rep.count("unjudged.poisoned-name"); return false; }
            match eval(e, &ctx) {
                R::V(v) => {
                    let ok = match slot { Slot::Ok { out, val } => agrees(&v, val, out), _ => false };
                    if !ok { mismatch(rep, "value", format!("{:?}", v)); }
                    true
                }
                R::AnyOf(vs) => {
                    let ok = match slot { Slot::Ok { out, val } => vs.iter().any(|v| agrees(v, val, out)), _ => false };
                    if !ok { mismatch(rep, "value", format!("one of {:?}", vs)); }
                    true
                }
                R::Fail => { if !slot.is_err() { mismatch(rep, "must-fail", "the line fails".into()); } true }
                R::NotA(k) => {
                    if let Some(v) = slot.val() { if obs_kind(v) == k { mismatch(rep, "must-not-be", format!("anything but a {}", k)); } }
                    true
                }
                R::Unjudged(why) => { rep.count(&format!("unjudged.{}", why)); false }
            }
        }
        Stmt::Assign { name, e } => {
            let key = name.key();
            if uses_poisoned(e) { envm.vals.remove(&key); envm.poisoned.insert(key); rep.count("unjudged.poisoned-name"); return false; }
            match eval(e, &ctx) {
                R::V(v) => {
                    let ok = match slot { Slot::Ok { out, val } => agrees(&v, val, out), _ => false };
                    if !ok {
                        mismatch(rep, "value", format!("{:?}", v));
                        envm.vals.remove(&key);
                        envm.poisoned.insert(key);
                    } else {
                        envm.poisoned.remove(&key);
                        // the name now holds what the calculator computed (equal to the model's value within
                        // the tolerance): later lines are judged against that, so that a rounding residue
                        // (x - x = 1e-9) multiplied up later is not mistaken for a wrong binding
                        let v = match (v, slot.val()) {
                            (MVal::Num(_), Some(crate::obs::Val::Num { v: o, .. })) => MVal::Num(o.0),
                            (MVal::Pct(_), Some(crate::obs::Val::Pct(o))) => MVal::Pct(o.0),
                            (MVal::Money(_, c), Some(crate::obs::Val::Money { v: o, .. })) => MVal::Money(o.0, c),
                            (MVal::Unit(_, f, i), Some(crate::obs::Val::Unit { v: o, .. })) => MVal::Unit(o.0, f, i),
                            (v, _) => v,
                        };
                        envm.vals.insert(key, v);
                    }
                    true
                }
                R::Fail => {
                    if !slot.is_err() { mismatch(rep, "must-fail", "the assignment fails".into()); }
                    if !envm.vals.contains_key(&key) { envm.poisoned.insert(key); }
                    true
                }
                R::AnyOf(_) | R::NotA(_) => { envm.vals.remove(&key); envm.poisoned.insert(key); rep.count("unjudged.assign-open-choice"); false }
                R::Unjudged(why) => { envm.vals.remove(&key); envm.poisoned.insert(key); rep.count(&format!("unjudged.{}", why)); false }
            }
        }
    }
}

/// Clock atomicity: the observation made while the clock moved must equal the
/// observation with the clock frozen at one of the values it returned.
pub fn check_atomicity(rep: &mut RunReport, ei: usize, prop: &str, w: &World, lang: &str, full: &str, clk: &ClockScript, o: &CallObs, values: &[i128]) {
    let mut distinct: Vec<i128> = values.to_vec();
    distinct.sort();
    distinct.dedup();
    if distinct.len() < 2 { return; }
    rep.count(&format!("clock.{}", clk.kind()));
    rep.judged += 1;
    let mut frozen_obs = Vec::new();
    for v in distinct.iter() {
        let (fo, _) = w.execute(lang, full, &ClockScript::Frozen { t: *v });
        if &fo == o { return; }
        frozen_obs.push(fo);
    }
    // attribute: which smartcalc functions read the clock during this evaluation
    let mut w2sites: Vec<String> = {
        let mut tmp = crate::clock::with_clock(clk, true, || crate::obs::observe_call(|| { let r = w.calc.execute(lang, full); crate::project_result!(r) })).1.sites.unwrap_or_default();
        tmp.sort();
        tmp.dedup();
        tmp
    };
    for s in w2sites.iter_mut() { if let Some(p) = s.rfind("::") { *s = s[p + 2..].to_string(); } }
    rep.violate("O-atomic", format!("{}:torn-clock-read:{}", prop, w2sites.join("+")), ei, format!("evaluating {:?} while the clock moved ({:?}, values read {:?}) gave {} which equals the result under NO single instant: frozen results are {}", full, clk, distinct.iter().map(|v| crate::clock::fmt_instant(*v)).collect::<Vec<_>>(), o.short(), frozen_obs.iter().map(|f| f.short()).collect::<Vec<_>>().join(" || ")));
}

pub fn run_semantic(prop: &str, trace: &Trace, env: &Env, opts: &SemOpts) -> RunReport {
    let mut rep = RunReport::default();
    let t0 = trace.events.first().map(|e| e.clock.base()).unwrap_or(NS);
    let mut w = World::new(&env.data, trace.salt, t0);
    w.explain = env.explain;
    let mut session_env: BTreeMap<u8, EnvModel> = BTreeMap::new();
    let mut session_lang: BTreeMap<u8, String> = BTreeMap::new();
    let mut last_t = t0;
    let mut last_slots: BTreeMap<u8, usize> = BTreeMap::new();
    // the text each session currently holds (spec and rendered lines)
    let mut last_text: BTreeMap<u8, (TextSpec, Vec<String>)> = BTreeMap::new();
    for (ei, ev) in trace.events.iter().enumerate() {
        let t = ev.clock.base();
        if utc_days(t) != utc_days(last_t) { rep.count("clock.advance_over_midnight"); }
        if t > last_t { rep.count("clock.advance_between_ops"); } else if t < last_t { rep.count("clock.step_back_between_ops"); }
        last_t = t;
        match &ev.op {
            Op::Admin(op) => {
                let before: Vec<CallObs> = if matches!(op, AdminOp::UpdateCurrency { .. }) { opts.rate_probes.iter().map(|(l, st, _)| w.execute(l, &render_stmt(st, &w.cfg.fmt), &ev.clock).0).collect() } else { vec![] };
                // what the calculator says its default zone is, and what a bare time of day looks like, before the call
                let zone_before = if let AdminOp::SetTimezone { .. } = op { let z = w.calc.get_time_offset(); Some(((z.name.clone(), z.offset), w.execute("en", "12:34", &ev.clock).0)) } else { None };
                let o = w.admin(op, &ev.clock);
                let expected = w.cfg.apply(&env.data, op);
                if let (AdminOp::SetTimezone { tz }, Some((zb, pb))) = (op, &zone_before) {
                    let z = w.calc.get_time_offset();
                    let za = (z.name.clone(), z.offset);
                    let trailer = expected.is_none() && crate::world::zone_with_trailer(&env.data, tz);
                    match &o {
                        AdminObs::Res(Err(_)) => {
                            // a refused call has configured nothing: the default zone is still the previous one
                            rep.judged += 1;
                            rep.count("probe.refused_zone_changes_nothing");
                            let pa = w.execute("en", "12:34", &ev.clock).0;
                            rep.evaluations += 2;
                            if &za != zb || &pa != pb {
                                rep.violate("O-survivors", format!("{}:refused-set_timezone-changed-the-default-zone", prop), ei, format!("{:?} was refused, yet the default zone went from {:?} to {:?} and '12:34' from {} to {}", op, zb, za, pb.short(), pa.short()));
                            }
                        }
                        AdminObs::Res(Ok(())) if trailer => {
                            // leniently accepted: whatever it configured must be a zone of the table under its own offset
                            rep.judged += 1;
                            rep.count("admin.zone_with_trailer_accepted");
                            if env.data.zones.get(&za.0) == Some(&za.1) { w.cfg.zone = za.clone(); }
                            else { rep.violate("O-model", format!("{}:accepted-zone-inconsistent", prop), ei, format!("{:?} was accepted and configured {:?}, which is no zone of the table under its own offset", op, za)); }
                        }
                        AdminObs::Res(Ok(())) => {
                            if expected.is_some() {
                                rep.judged += 1;
                                rep.count("probe.accepted_zone_read_back");
                                if za.1 != w.cfg.zone.1 || (env.data.zones.contains_key(&w.cfg.zone.0) && za.0 != w.cfg.zone.0) { rep.violate("O-model", format!("{}:accepted-zone-read-back", prop), ei, format!("{:?} was accepted; get_time_offset() says {:?}, the configuration model {:?}", op, za, w.cfg.zone)); }
                            }
                        }
                        _ => {}
                    }
                }
                if let AdminOp::UpdateCurrency { name, .. } = op {
                    let updated = env.data.read_currency(name);
                    for (k, (l, st, involved)) in opts.rate_probes.iter().enumerate() {
                        let line = render_stmt(st, &w.cfg.fmt);
                        let after = w.execute(l, &line, &ev.clock).0;
                        rep.evaluations += 2;
                        let touches = match &updated { Some(code) => involved.contains(code), None => false };
                        if !touches {
                            rep.judged += 1;
                            rep.count("probe.unrelated_conversion_unchanged");
                            if after != before[k] {
                                rep.violate("O-exactly-that-currency", format!("{}:rate-update-changed-unrelated-conversion", prop), ei, format!("{:?} (updates {:?}) changed {:?} from {} to {}", op, updated, line, before[k].short(), after.short()));
                            }
                        } else if let Some(slot) = after.lines().and_then(|l| l.first()).map(|l| l.slot.clone()) {
                            // a conversion that involves the updated currency and was already served before the
                            // update: it must follow the new table at once
                            rep.count("probe.related_conversion_follows_update");
                            let mut em = EnvModel::default();
                            if judge_line(&mut rep, ei, prop, st, &line, &slot, &mut em, &w, env, ev.clock.base()) { rep.judged += 1; }
                        }
                    }
                }
                rep.mix_obs(&format!("{:?}", o));
                let accepted = matches!(o, AdminObs::Unit | AdminObs::Bool(true) | AdminObs::Res(Ok(())));
                rep.count(if accepted { op.kind() } else { "admin.rejected" });
                if opts.judge_admin {
                    rep.judged += 1;
                    match (&expected, &o) {
                        (_, AdminObs::Unwound(p)) => rep.violate("O-model", format!("{}:admin-{}", prop, p.key()), ei, format!("{:?} panicked: {} at {}", op, p.msg, p.loc)),
                        (Some(e), o) if e != o => rep.violate("O-model", format!("{}:admin-return:{}", prop, op.kind()), ei, format!("{:?} returned {:?}, the configuration model says {:?}", op, o, e)),
                        (None, AdminObs::Res(Ok(()))) if matches!(op, AdminOp::SetTimezone { tz } if !crate::world::zone_with_trailer(&env.data, tz)) => rep.violate("O-model", format!("{}:admin-accepted-invalid-zone", prop), ei, format!("{:?} was accepted but names no zone of the table and no GMT offset", op)),
                        _ => {}
                    }
                }
            }
            Op::SessionNew { lang } => {
                if w.sessions.contains_key(&ev.actor) { rep.count("session.drop_recreate"); }
                w.session_new(ev.actor, lang);
                session_env.insert(ev.actor, EnvModel::default());
                session_lang.insert(ev.actor, lang.clone());
                last_slots.remove(&ev.actor);
                last_text.remove(&ev.actor);
            }
            Op::Checkpoint { .. } => {}
            Op::Nested { outer, inner } => {
                // the outer step with other texts evaluated inside its callback invocations (section 17.1 of DESIGN.md)
                let (lang, text, is_session): (String, &TextSpec, bool) = match &**outer {
                    Op::Execute { lang, text } => (lang.clone(), text, false),
                    Op::SessionText { text } => (session_lang.get(&ev.actor).cloned().unwrap_or_else(|| "en".into()), text, true),
                    _ => continue,
                };
                if is_session && !w.sessions.contains_key(&ev.actor) {
                    w.session_new(ev.actor, &lang);
                    session_env.insert(ev.actor, EnvModel::default());
                    session_lang.insert(ev.actor, lang.clone());
                }
                let rendered: Vec<String> = text.lines.iter().map(|l| match l { Line::Raw(s) => s.clone(), Line::Sem(st) => render_stmt(st, &w.cfg.fmt) }).collect();
                let full = text.assemble(&rendered);
                if is_session { last_slots.insert(ev.actor, text.expected_slots(&rendered)); last_text.insert(ev.actor, (text.clone(), rendered.clone())); }
                let mut calls: Vec<crate::world::InnerCall> = Vec::new();
                let mut inner_rendered: Vec<Vec<String>> = Vec::new();
                for (idx, st) in inner.iter().enumerate() {
                    let r2: Vec<String> = st.text.lines.iter().map(|l| match l { Line::Raw(s) => s.clone(), Line::Sem(s) => render_stmt(s, &w.cfg.fmt) }).collect();
                    // only one-shot inner steps here (a session step would need that session's bookkeeping)
                    calls.push(crate::world::InnerCall { idx, at_call: st.at_call, actor: st.actor, session: false, lang: st.lang.clone(), text: st.text.assemble(&r2), t: t + st.dt });
                    inner_rendered.push(r2);
                }
                let (o, clk, results) = w.run_nested(if is_session { Some(ev.actor) } else { None }, &lang, &full, &ev.clock, calls);
                rep.evaluations += 1 + results.len() as u64;
                rep.clock_reads += clk.values.len() as u64 + results.iter().map(|r| r.reads as u64).sum::<u64>();
                rep.mix_obs(&o.short());
                // inner steps: judged by the model at their own instant, with an empty environment (one-shot)
                for res in results.iter() {
                    let st = &inner[res.idx];
                    match res.fired_in_call { Some(_) => { rep.count("sched.step_inside_callback"); if st.dt != 0 { rep.count("sched.inner_sees_other_instant"); } } None => rep.count("probe.nested_not_reached") }
                    rep.mix_obs(&res.obs.short());
                    match &res.obs {
                        CallObs::Unwound(p) => rep.violate("O-model", format!("{}:inner-{}", prop, p.key()), ei, format!("a text evaluated inside a callback invocation of another evaluation panicked: {} at {} in {}", p.msg, p.loc, p.func)),
                        CallObs::Returned { lines, .. } => {
                            let mut local = EnvModel::default();
                            for (i, l) in st.text.lines.iter().enumerate() {
                                let slot = match lines.get(i) { Some(s) => &s.slot, None => { rep.violate("O-model", format!("{}:inner-missing-slot", prop), ei, format!("inner text has no slot for line {}", i)); break; } };
                                if let Line::Sem(stm) = l { if judge_line(&mut rep, ei, prop, stm, &inner_rendered[res.idx][i], slot, &mut local, &w, env, t + st.dt) { rep.judged += 1; } else { rep.unjudged += 1; } }
                            }
                        }
                    }
                }
                // the outer step: judged as if nothing had happened inside it
                let lines = match &o {
                    CallObs::Unwound(p) => { rep.violate("O-model", format!("{}:nested-{}", prop, p.key()), ei, format!("evaluating {:?} (with another text evaluated inside its callback) panicked: {} at {} in {}", full, p.msg, p.loc, p.func)); continue; }
                    CallObs::Returned { lines, .. } => lines,
                };
                if clk.distinct_values().len() > 1 {
                    // the outer evaluation read the clock more than once and saw different instants
                    rep.count("clock.tick_in_op");
                    if !is_session { check_atomicity(&mut rep, ei, prop, &w, &lang, &full, &ev.clock, &o, &clk.values); }
                    else {
                        // a session step cannot be re-evaluated; the environment model cannot follow it either
                        rep.unjudged += 1;
                        if let Some(em) = session_env.get_mut(&ev.actor) { for l in text.lines.iter() { if let Line::Sem(Stmt::Assign { name, .. }) | Line::Sem(Stmt::FailAssign { name, .. }) = l { em.vals.remove(&name.key()); em.poisoned.insert(name.key()); } } }
                    }
                    continue;
                }
                let mut local = EnvModel::default();
                let envm: &mut EnvModel = if is_session { session_env.entry(ev.actor).or_default() } else { &mut local };
                for (i, l) in text.lines.iter().enumerate() {
                    let slot = match lines.get(i) { Some(s) => &s.slot, None => { rep.violate("O-model", format!("{}:missing-slot", prop), ei, format!("text {:?} has no slot for line {}", full, i)); break; } };
                    if let Line::Sem(stm) = l { if judge_line(&mut rep, ei, prop, stm, &rendered[i], slot, envm, &w, env, t) { rep.judged += 1; } else { rep.unjudged += 1; } }
                    else { rep.unjudged += 1; }
                }
            }
            Op::SessionFormat => {
                // the public formatter over the values of the session's last result, between two texts: its
                // output is not judged here, but whatever it leaves in the session meets the next text
                if w.sessions.contains_key(&ev.actor) {
                    if let Err(p) = w.session_format(ev.actor, &ev.clock) { rep.violate("O-model", format!("{}:format-{}", prop, p.key()), ei, format!("format_result over the session's last values panicked: {} at {}", p.msg, p.loc)); }
                    rep.count("session.format_result_between_texts");
                }
            }
            Op::SessionLang { lang } => {
                if w.sessions.contains_key(&ev.actor) {
                    w.session_set_language(ev.actor, lang);
                    session_lang.insert(ev.actor, lang.clone());
                    rep.count("session.language_switch");
                }
            }
            Op::SessionRerun => {
                // execute_session once more without a new text: a one-line text is evaluated again, at this instant
                if !last_text.contains_key(&ev.actor) && w.sessions.contains_key(&ev.actor) {
                    // before any text was set: nothing to evaluate, nothing to judge - but the call happened
                    let _ = w.session_rerun(ev.actor, &ev.clock);
                    rep.count("session.evaluated_before_any_text");
                    continue;
                }
                let (line, rendered_line) = match last_text.get(&ev.actor) { Some((ts, rl)) if ts.lines.len() == 1 && rl.len() == 1 && w.sessions.contains_key(&ev.actor) => (ts.lines[0].clone(), rl[0].clone()), _ => continue };
                let (o, clk) = w.session_rerun(ev.actor, &ev.clock);
                rep.evaluations += 1;
                rep.clock_reads += clk.values.len() as u64;
                rep.mix_obs(&o.short());
                rep.count("session.rerun_without_new_text");
                match &o {
                    CallObs::Unwound(p) if p.msg.contains("SIMRULE-UNWIND") => { rep.count("rule.unwind"); rep.unjudged += 1; }
                    CallObs::Unwound(p) => rep.violate("O-model", format!("{}:{}", prop, p.key()), ei, format!("evaluating the session again (text {:?}) panicked: {} at {} in {}", rendered_line, p.msg, p.loc, p.func)),
                    CallObs::Returned { lines, .. } => {
                        match (lines.first(), &line) {
                            (Some(lo), Line::Sem(st)) if lines.len() == 1 => {
                                let envm = session_env.entry(ev.actor).or_default();
                                if judge_line(&mut rep, ei, prop, st, &rendered_line, &lo.slot, envm, &w, env, t) { rep.judged += 1; } else { rep.unjudged += 1; }
                            }
                            (_, Line::Sem(_)) => rep.violate("O-model", format!("{}:rerun-slot-count", prop), ei, format!("evaluating the one-line session text {:?} again gave {} slots", rendered_line, lines.len())),
                            _ => { rep.unjudged += 1; }
                        }
                    }
                }
            }
            Op::Execute { .. } | Op::SessionText { .. } => {
                let (lang, text, is_session): (String, &TextSpec, bool) = match &ev.op {
                    Op::Execute { lang, text } => (lang.clone(), text, false),
                    Op::SessionText { text } => (session_lang.get(&ev.actor).cloned().unwrap_or_else(|| "en".into()), text, true),
                    _ => unreachable!(),
                };
                if is_session && !w.sessions.contains_key(&ev.actor) {
                    w.session_new(ev.actor, &lang);
                    session_env.insert(ev.actor, EnvModel::default());
                    session_lang.insert(ev.actor, lang.clone());
                }
                let rendered: Vec<String> = text.lines.iter().map(|l| match l { Line::Raw(s) => s.clone(), Line::Sem(st) => render_stmt(st, &w.cfg.fmt) }).collect();
                let full = text.assemble(&rendered);
                let want = text.expected_slots(&rendered);
                if is_session {
                    match last_slots.get(&ev.actor) { Some(p) if *p > want => rep.count("session.swap_shrink"), Some(p) if *p < want => rep.count("session.swap_grow"), Some(_) => rep.count("session.swap_same"), None => {} }
                    last_slots.insert(ev.actor, want);
                    last_text.insert(ev.actor, (text.clone(), rendered.clone()));
                }
                let (o, clk) = if is_session { w.session_text(ev.actor, &full, &ev.clock) } else { w.execute(&lang, &full, &ev.clock) };
                rep.evaluations += 1;
                rep.clock_reads += clk.values.len() as u64;
                rep.mix_obs(&o.short());
                let lines = match &o {
                    CallObs::Unwound(p) if p.msg.contains("SIMRULE-UNWIND") => {
                        // injected fault: a callback unwound and the caller caught it. The evaluation is lost; what
                        // its earlier lines bound is unknown to the model; everything afterwards is judged as usual
                        rep.count("rule.unwind");
                        rep.unjudged += 1;
                        if is_session { if let Some(em) = session_env.get_mut(&ev.actor) { for l in text.lines.iter() { if let Line::Sem(Stmt::Assign { name, .. }) | Line::Sem(Stmt::FailAssign { name, .. }) = l { em.vals.remove(&name.key()); em.poisoned.insert(name.key()); } } } }
                        continue;
                    }
                    CallObs::Unwound(p) => {
                        rep.violate("O-model", format!("{}:{}", prop, p.key()), ei, format!("evaluating {:?} panicked: {} at {} in {}", full, p.msg, p.loc, p.func));
                        continue;
                    }
                    CallObs::Returned { lines, .. } => lines,
                };
                let moved = !ev.clock.is_frozen() && clk.distinct_values().len() > 1;
                if moved {
                    if opts.atomicity && !is_session { check_atomicity(&mut rep, ei, prop, &w, &lang, &full, &ev.clock, &o, &clk.values); }
                    else { rep.unjudged += 1; }
                    // the environment model cannot follow an evaluation that saw several instants
                    if is_session { if let Some(em) = session_env.get_mut(&ev.actor) { for l in text.lines.iter() { if let Line::Sem(Stmt::Assign { name, .. }) | Line::Sem(Stmt::FailAssign { name, .. }) = l { em.vals.remove(&name.key()); em.poisoned.insert(name.key()); } } } }
                    continue;
                }
                let mut local = EnvModel::default();
                let envm: &mut EnvModel = if is_session { session_env.entry(ev.actor).or_default() } else { &mut local };
                // slot index of spec line i == i: structured lines never contain separators
                for (i, l) in text.lines.iter().enumerate() {
                    let slot = match lines.get(i) { Some(s) => &s.slot, None => { rep.violate("O-model", format!("{}:missing-slot", prop), ei, format!("text {:?} has no slot for line {}", full, i)); break; } };
                    match l {
                        Line::Sem(st) => {
                            if judge_line(&mut rep, ei, prop, st, &rendered[i], slot, envm, &w, env, t) { rep.judged += 1; } else { rep.unjudged += 1; }
                        }
                        Line::Raw(raw) => {
                            rep.unjudged += 1;
                            // a raw line that binds a name: the model does not know what to
                            if let Some((lhs, _)) = raw.split_once('=') { let key = lhs.trim().to_lowercase(); envm.vals.remove(&key); envm.poisoned.insert(key); }
                        }
                    }
                }
                rep.states.insert(crate::prng::fnv64(format!("{:?}|{:?}|{}|{}", w.cfg.zone, envm.vals.iter().map(|(k, v)| (k.clone(), v.kind())).collect::<Vec<_>>(), envm.poisoned.len(), utc_days(t) % 366).as_bytes()));
            }
        }
    }
    if let (Some(a), Some(b)) = (trace.events.first(), trace.events.last()) { rep.sim_span_s = ((b.clock.base() - a.clock.base()) as f64 / 1e9).abs(); }
    rep
}
