//! Simulated instants and clock scripts: boundary-biased instants, host-zone
//! DST transitions (computed from the POSIX rule of the worker's TZ with the
//! harness's own calendar code), in-operation clock movement.

use crate::clock::{days_from_civil, days_in_month, instant, is_leap, ClockScript, NS};
use crate::prng::Rng;

pub const DAY_NS: i128 = 86400 * NS;

/// The host zones workers run under (value of the TZ variable, as POSIX rule
/// strings so that no zoneinfo file is read).
pub const HOST_ZONES: &[&str] = &[
    "UTC0",
    "EST5EDT,M3.2.0,M11.1.0",
    "CET-1CEST,M3.5.0,M10.5.0/3",
    "<+1030>-10:30<+11>-11,M10.1.0,M4.1.0",
    "NZST-12NZDT,M9.5.0,M4.1.0/3",
    "IST-5:30",
];

#[derive(Debug, Clone, Copy)]
pub struct MRule { pub m: u32, pub w: u32, pub d: u32, pub secs: i64 }

#[derive(Debug, Clone, Copy)]
pub struct HostRule {
    pub std_off: i64,
    pub dst_off: i64,
    /// DST starts (wall time in standard time)
    pub start: MRule,
    /// DST ends (wall time in daylight time)
    pub end: MRule,
}

pub fn host_rule(tz: &str) -> Option<HostRule> {
    match tz {
        "EST5EDT,M3.2.0,M11.1.0" => Some(HostRule { std_off: -5 * 3600, dst_off: -4 * 3600, start: MRule { m: 3, w: 2, d: 0, secs: 7200 }, end: MRule { m: 11, w: 1, d: 0, secs: 7200 } }),
        "CET-1CEST,M3.5.0,M10.5.0/3" => Some(HostRule { std_off: 3600, dst_off: 7200, start: MRule { m: 3, w: 5, d: 0, secs: 7200 }, end: MRule { m: 10, w: 5, d: 0, secs: 10800 } }),
        "<+1030>-10:30<+11>-11,M10.1.0,M4.1.0" => Some(HostRule { std_off: 37800, dst_off: 39600, start: MRule { m: 10, w: 1, d: 0, secs: 7200 }, end: MRule { m: 4, w: 1, d: 0, secs: 7200 } }),
        "NZST-12NZDT,M9.5.0,M4.1.0/3" => Some(HostRule { std_off: 43200, dst_off: 46800, start: MRule { m: 9, w: 5, d: 0, secs: 7200 }, end: MRule { m: 4, w: 1, d: 0, secs: 10800 } }),
        _ => None,
    }
}

/// day of month of the w-th (5 = last) weekday d (0 = Sunday) of month m in year y
pub fn mrule_day(y: i64, r: &MRule) -> u32 {
    let first = days_from_civil(y, r.m, 1);
    let wd_first = (first + 4).rem_euclid(7) as u32; // 1970-01-01 was a Thursday (4)
    let mut day = 1 + (r.d + 7 - wd_first) % 7;
    let dim = days_in_month(y, r.m);
    let mut k = 1;
    while k < r.w && day + 7 <= dim { day += 7; k += 1; }
    day
}

/// local wall-clock range [from, to) (seconds of day) that does not exist on the
/// DST start date of year y, and the civil date it is on
pub fn gap(y: i64, h: &HostRule) -> ((i64, u32, u32), i64, i64) {
    let d = mrule_day(y, &h.start);
    ((y, h.start.m, d), h.start.secs, h.start.secs + (h.dst_off - h.std_off))
}

/// local wall-clock range [from, to) that occurs twice on the DST end date
pub fn fold(y: i64, h: &HostRule) -> ((i64, u32, u32), i64, i64) {
    let d = mrule_day(y, &h.end);
    ((y, h.end.m, d), h.end.secs - (h.dst_off - h.std_off), h.end.secs)
}

/// classify a wall time typed on (utc) date `date` for the host rule
pub fn classify_wall(date: (i64, u32, u32), wall: i64, h: &Option<HostRule>) -> &'static str {
    if let Some(h) = h {
        let (gd, ga, gb) = gap(date.0, h);
        if gd == date && wall >= ga && wall < gb { return "gap"; }
        let (fd, fa, fb) = fold(date.0, h);
        if fd == date && wall >= fa && wall < fb { return "fold"; }
    }
    "plain"
}

pub fn year_pick(r: &mut Rng) -> i64 {
    match r.below(10) {
        0 => 1970 + r.below(8030) as i64,
        1 => 9998,
        2 => 1970,
        3 => *r.pick(&[2000, 2024, 2028, 2100, 2400, 1972]),
        _ => 1971 + r.below(130) as i64,
    }
}

/// an instant from a boundary-biased mixture
pub fn base_instant(r: &mut Rng, host: &Option<HostRule>) -> i128 {
    let y = year_pick(r);
    let near = |r: &mut Rng, t: i128| -> i128 {
        // within +-2 s of t, or exactly on it
        match r.below(5) { 0 => t, 1 => t - 1, 2 => t - 1 - r.below(2 * 1_000_000_000) as i128, 3 => t + r.below(2 * 1_000_000_000) as i128, _ => t - NS }
    };
    if r.chance(1, 10) {
        // up to 14 h before or after the start of a month (of a year): a default or host zone is still / already
        // in the other month there
        let m = if r.chance(1, 3) { 1 } else { 1 + r.below(12) as u32 };
        let t = instant(y, m, 1, 0, 0, 0) + r.range(-14 * 3600, 14 * 3600) as i128 * NS;
        return clamp_instant(t);
    }
    let t = match r.below(12) {
        0 => { let t = instant(y + 1, 1, 1, 0, 0, 0); near(r, t) }                       // year boundary
        1 => { let m = 1 + r.below(12) as u32; let t = instant(y, m, 1, 0, 0, 0); near(r, t) } // month boundary
        2 => { let ly = leap_near(y); let t = instant(ly, 2, 29, 0, 0, 0); near(r, t) }   // 28 -> 29 Feb
        3 => { let ly = leap_near(y); let t = instant(ly, 3, 1, 0, 0, 0); near(r, t) }    // 29 Feb -> 1 Mar
        4 => { let ny = if is_leap(y) { y + 1 } else { y }; let t = instant(ny, 3, 1, 0, 0, 0); near(r, t) } // 28 Feb -> 1 Mar
        5 => { let m = 1 + r.below(12) as u32; let d = 1 + r.below(days_in_month(y, m) as u64) as u32; let t = instant(y, m, d, 0, 0, 0); near(r, t) } // day boundary
        6 => match host { // on a DST transition date of the host zone
            Some(h) => {
                let ((yy, m, d), _, _) = if r.chance(1, 2) { gap(y, h) } else { fold(y, h) };
                instant(yy, m, d, r.below(24) as u32, r.below(60) as u32, r.below(60) as u32)
            }
            None => instant(y, 1 + r.below(12) as u32, 1 + r.below(28) as u32, r.below(24) as u32, r.below(60) as u32, r.below(60) as u32),
        },
        7 => instant(9998, 12, 31, 23, 59, 50) + r.below(9) as i128 * NS,
        8 => instant(y, 12, 31, r.below(24) as u32, r.below(60) as u32, r.below(60) as u32),
        _ => { let m = 1 + r.below(12) as u32; let d = 1 + r.below(days_in_month(y, m) as u64) as u32; instant(y, m, d, r.below(24) as u32, r.below(60) as u32, r.below(60) as u32) + r.below(1_000_000_000) as i128 }
    };
    clamp_instant(t)
}

fn leap_near(y: i64) -> i64 {
    let mut ly = y;
    while !is_leap(ly) { ly += 1; }
    if ly > 9996 { 9996 } else { ly }
}

pub fn clamp_instant(t: i128) -> i128 {
    let lo = instant(1970, 1, 1, 0, 0, 1);
    let hi = instant(9998, 12, 31, 23, 59, 59);
    t.max(lo).min(hi)
}

/// advance between events: nothing, a little, hours (>= one midnight), days, months, years
pub fn advance(r: &mut Rng, t: i128) -> i128 {
    if r.chance(1, 16) {
        // the wall clock is set BACK between two calls: by seconds, hours, or to before the last midnight / New Year
        let back: i128 = match r.below(4) {
            0 => (1 + r.below(120)) as i128 * NS,
            1 => (1 + r.below(30)) as i128 * 3600 * NS,
            2 => t.rem_euclid(DAY_NS) + 1 + r.below(3_000_000_000) as i128,
            _ => { let (y, _, _) = crate::clock::utc_date(t); t - instant(y, 1, 1, 0, 0, 0) + 1 + r.below(3_000_000_000) as i128 }
        };
        return clamp_instant(t - back);
    }
    let dt: i128 = match r.below(12) {
        0 | 1 | 2 | 3 => 0,
        4 => r.below(1_000_000) as i128,
        5 => r.below(60) as i128 * NS,
        6 => (1 + r.below(36)) as i128 * 3600 * NS,
        7 => (1 + r.below(40)) as i128 * DAY_NS,
        8 => (28 + r.below(400)) as i128 * DAY_NS,
        9 => (365 + r.below(3650)) as i128 * DAY_NS,
        10 => { // to just before the next midnight
            let next = (t.div_euclid(DAY_NS) + 1) * DAY_NS;
            next - t - 1 - r.below(2_000_000_000) as i128
        }
        _ => r.below(5000) as i128 * 1_000_000,
    };
    clamp_instant(t + dt.max(0))
}

/// next boundary after t of the given kind: 0 = day, 1 = month, 2 = year
pub fn next_boundary(t: i128, kind: u64) -> i128 {
    let (y, m, _) = crate::clock::utc_date(t);
    match kind {
        0 => (t.div_euclid(DAY_NS) + 1) * DAY_NS,
        1 => if m == 12 { instant(y + 1, 1, 1, 0, 0, 0) } else { instant(y, m + 1, 1, 0, 0, 0) },
        _ => instant(y + 1, 1, 1, 0, 0, 0),
    }
}

/// a clock script for an event starting at `t` that moves inside the operation
pub fn moving_script(r: &mut Rng, t: i128, max_reads: u32) -> ClockScript {
    match r.below(4) {
        0 => ClockScript::Tick { start: t, step: match r.below(4) { 0 => 1, 1 => 1_000_000, 2 => NS, _ => 1 + r.below(1_000_000_000) as i128 } },
        1 | 2 => {
            let b = clamp_instant(next_boundary(t, r.below(3)));
            let before = clamp_instant(b - 1 - r.below(1_000_000_000) as i128);
            ClockScript::Cross { before, after: clamp_instant(b + r.below(1_000_000_000) as i128), at_read: 1 + r.below(max_reads.max(1) as u64) as u32 }
        }
        _ => ClockScript::BackStep { start: t, delta: match r.below(3) { 0 => 1_000_000, 1 => 3600 * NS, _ => (1 + r.below(7200)) as i128 * NS }.min(t - NS), at_read: 1 + r.below(max_reads.max(1) as u64) as u32 },
    }
}
