pub mod raw;
pub mod clocks;
pub mod sem;
