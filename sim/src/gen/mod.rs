pub mod raw;
pub mod clocks;
pub mod sem;

use crate::clock::{ClockScript, NS};
use crate::prng::Rng;
use crate::trace::{AdminOp, Event, InnerStep, Line, Op, ResultSpec, RuleSpec, ADMIN};

/// the keyword of the rule the model-judged checks register for scheduling steps inside evaluations
pub const NEST_KW: &str = "zork";

/// Scheduling inside evaluations for the model-judged checks (a fifth of the runs): one always-accepting
/// rule `zork {NUMBER:n}` is registered up front (en and tr); some steps get a line that reaches it, and
/// while its callback runs the simulator evaluates ANOTHER text of this trace one-shot on the same
/// calculator, under its own frozen instant (same, +1 s, just over the next midnight, +366 days). The
/// outer step runs under a ticking clock (a day or a year per read), so an outer evaluation that lost its
/// reading of the clock to the inner one sees another date. Outer and inner lines are judged by the models
/// at their own instants.
pub fn nest_variants(r: &mut Rng, events: &mut Vec<Event>) {
    if !r.chance(1, 5) || events.is_empty() { return; }
    let t0 = events[0].clock.base();
    let rule = |lang: &str| Event { actor: ADMIN, op: Op::Admin(AdminOp::AddRule { lang: lang.to_string(), rule: RuleSpec { id: 900, name: "nestrule".into(), patterns: vec![format!("{} {{NUMBER:n}}", NEST_KW)], result: ResultSpec::Number(7.0), decline_num: 0, decline_den: 0, unwind_den: 0 } }), clock: ClockScript::Frozen { t: t0 } };
    // texts of this trace that can be evaluated one-shot inside a callback
    let mut lang_of: std::collections::BTreeMap<u8, String> = std::collections::BTreeMap::new();
    let mut donors: Vec<(String, crate::trace::TextSpec)> = Vec::new();
    for e in events.iter() {
        match &e.op {
            Op::SessionNew { lang } | Op::SessionLang { lang } => { lang_of.insert(e.actor, lang.clone()); }
            Op::Execute { lang, text } if !text.lines.is_empty() => donors.push((lang.clone(), text.clone())),
            Op::SessionText { text } if !text.lines.is_empty() => donors.push((lang_of.get(&e.actor).cloned().unwrap_or_else(|| "en".into()), text.clone())),
            _ => {}
        }
    }
    if donors.is_empty() { return; }
    let mut out: Vec<Event> = vec![rule("en"), rule("tr")];
    for ev in events.drain(..) {
        let eligible = ev.clock.is_frozen() && matches!(&ev.op, Op::Execute { .. } | Op::SessionText { .. });
        if !eligible || !r.chance(1, 3) { out.push(ev); continue; }
        let t = ev.clock.base();
        let mut op = ev.op.clone();
        if let Op::Execute { text, .. } | Op::SessionText { text } = &mut op {
            let at = r.usize(text.lines.len() + 1);
            text.lines.insert(at, Line::Raw(format!("{} {}", NEST_KW, r.below(50))));
            text.crlf.insert(at.min(text.crlf.len()), false);
        }
        let (dl, dtx) = if r.chance(1, 3) {
            // a text in the OTHER language (plain arithmetic, nothing to judge): what language the outer
            // evaluation reads its remaining lines in must not depend on it
            let outer_lang = match &op { Op::Execute { lang, .. } => lang.clone(), _ => lang_of.get(&ev.actor).cloned().unwrap_or_else(|| "en".into()) };
            (if outer_lang == "tr" { "en".to_string() } else { "tr".to_string() }, crate::trace::TextSpec::raw(&["12 + 30", "2 * 21"]))
        } else { r.pick(&donors).clone() };
        let dt: i128 = match r.below(5) { 0 | 1 => 0, 2 => NS, 3 => (86400 * NS - t.rem_euclid(86400 * NS)) + NS, _ => 366 * 86400 * NS };
        // stay inside the calendar the models cover
        let dt = crate::gen::clocks::clamp_instant(t + dt) - t;
        let inner = vec![InnerStep { at_call: 1, actor: 120, session: false, lang: dl, text: dtx, dt }];
        // a one-shot outer step runs under a ticking clock (it can be re-evaluated for the atomicity oracle);
        // a session step under a frozen one
        let clock = if matches!(op, Op::Execute { .. }) { ClockScript::Tick { start: t, step: *r.pick(&[86400 * NS, 366 * 86400 * NS]) } } else { ClockScript::Frozen { t } };
        out.push(Event { actor: ev.actor, op: Op::Nested { outer: Box::new(op), inner }, clock });
    }
    *events = out;
}

/// Session histories the generators of the individual checks do not produce by themselves:
///  * the session is evaluated AGAIN without a new text (only after one-line texts: the
///    statement of C04 defines what a new text does, and a one-line text is evaluated again
///    by every further execute_session), at the instant of the following event;
///  * the very same text is set again (set_text with an identical string).
/// Inserted after the fact so that every check's own bookkeeping stays as it is; the
/// executors' models follow the repeated lines dynamically.
///  * the session's language is switched away and back between two texts (set_language twice).
///  * (C04 only, `format_den` > 0) the values of the session's last result are formatted again
///    through the public `format_result` between two texts.
pub fn session_variants(r: &mut Rng, events: &mut Vec<Event>, rerun_den: u64, repeat_den: u64, format_den: u64) {
    let mut out: Vec<Event> = Vec::with_capacity(events.len() + 8);
    let n = events.len();
    let mut lang_of: std::collections::BTreeMap<u8, String> = std::collections::BTreeMap::new();
    // the text each live session was given last (for the delayed repetition below)
    let mut prev_text: std::collections::BTreeMap<u8, crate::trace::TextSpec> = std::collections::BTreeMap::new();
    for i in 0..n {
        let ev = events[i].clone();
        if let Op::SessionNew { .. } = &ev.op { prev_text.remove(&ev.actor); }
        // (a change of how literals are written makes an already rendered one-line text mean something else)
        if let Op::Admin(a) = &ev.op { if matches!(a, AdminOp::SetDecimalSep { .. } | AdminOp::SetThousandSep { .. } | AdminOp::SetDateRule { .. }) { prev_text.clear(); } }
        if let Op::SessionText { .. } = &ev.op {
            // the session's one-line text evaluated AGAIN, without a new text, only now - after whatever the
            // administrator and the other clients did since (a default zone or a rate may have changed)
            if let Some(p) = prev_text.get(&ev.actor) {
                if p.lines.len() == 1 && !p.trailing_nl && ev.clock.is_frozen() && rerun_den > 0 && r.chance(1, rerun_den + 1) {
                    out.push(Event { actor: ev.actor, op: Op::SessionRerun, clock: ev.clock.clone() });
                }
            }
        }
        if let Op::SessionText { text } = &ev.op {
            // the session's PREVIOUS text once more, just before its next one: everything that happened in
            // between (administrator calls, other clients, clock advances) lies between the two copies
            if let Some(p) = prev_text.get(&ev.actor) {
                if ev.clock.is_frozen() && repeat_den > 0 && r.chance(1, repeat_den) && p != text {
                    out.push(Event { actor: ev.actor, op: Op::SessionText { text: p.clone() }, clock: ev.clock.clone() });
                }
            }
            prev_text.insert(ev.actor, text.clone());
        }
        if let Op::SessionNew { lang } | Op::SessionLang { lang } = &ev.op { lang_of.insert(ev.actor, lang.clone()); }
        if let Op::SessionNew { .. } = &ev.op {
            // a brand-new session is evaluated before any text was set (the call has nothing to evaluate;
            // whatever it leaves in the session meets the first real text, possibly much later)
            if rerun_den > 0 && r.chance(1, 8) {
                out.push(ev.clone());
                out.push(Event { actor: ev.actor, op: Op::SessionRerun, clock: ev.clock.clone() });
                continue;
            }
        }
        if let (Op::SessionText { .. }, Some(lang)) = (&ev.op, lang_of.get(&ev.actor)) {
            if ev.clock.is_frozen() && r.chance(1, 12) {
                let other = if lang == "en" { "tr" } else { "en" };
                out.push(Event { actor: ev.actor, op: Op::SessionLang { lang: other.to_string() }, clock: ev.clock.clone() });
                out.push(Event { actor: ev.actor, op: Op::SessionLang { lang: lang.clone() }, clock: ev.clock.clone() });
            }
        }
        let next_t = events.get(i + 1).map(|e| e.clock.base()).unwrap_or(ev.clock.base());
        // a moving clock inside the event: leave the event alone (clock atomicity is judged on one-shot steps)
        let plain = ev.clock.is_frozen();
        out.push(ev.clone());
        if !plain { continue; }
        if let Op::SessionText { text } = &ev.op {
            // never between a session step and the re-creation of that session
            let next_same_new = matches!(events.get(i + 1), Some(e) if e.actor == ev.actor && matches!(e.op, Op::SessionNew { .. }));
            if next_same_new { continue; }
            if format_den > 0 && r.chance(1, format_den) {
                out.push(Event { actor: ev.actor, op: Op::SessionFormat, clock: ClockScript::Frozen { t: next_t } });
            }
            if text.lines.len() == 1 && !text.trailing_nl && rerun_den > 0 && r.chance(1, rerun_den) {
                out.push(Event { actor: ev.actor, op: Op::SessionRerun, clock: ClockScript::Frozen { t: next_t } });
            } else if repeat_den > 0 && r.chance(1, repeat_den) {
                out.push(Event { actor: ev.actor, op: Op::SessionText { text: text.clone() }, clock: ClockScript::Frozen { t: next_t } });
            }
        }
    }
    // a TWIN session for one of the session clients (a quarter of the runs): a second session on the same
    // calculator that is given the same texts one step later, so that at any time the two sessions hold
    // different values under the same names and alternate call by call
    if r.chance(1, 4) {
        let owners: Vec<u8> = { let mut v: Vec<u8> = out.iter().filter(|e| matches!(e.op, Op::SessionNew { .. }) && e.actor < 50).map(|e| e.actor).collect(); v.sort(); v.dedup(); v };
        if !owners.is_empty() {
            let a = *r.pick(&owners);
            let twin = a + 50;
            let mut lagged: Option<crate::trace::TextSpec> = None;
            let mut out2: Vec<Event> = Vec::with_capacity(out.len() * 2);
            for ev in out.into_iter() {
                if ev.actor == a {
                    match &ev.op {
                        Op::SessionNew { lang } => { lagged = None; out2.push(Event { actor: twin, op: Op::SessionNew { lang: lang.clone() }, clock: ev.clock.clone() }); }
                        Op::SessionLang { lang } => { out2.push(Event { actor: twin, op: Op::SessionLang { lang: lang.clone() }, clock: ev.clock.clone() }); }
                        Op::SessionText { text } if ev.clock.is_frozen() => {
                            if let Some(prev) = lagged.take() { out2.push(Event { actor: twin, op: Op::SessionText { text: prev }, clock: ev.clock.clone() }); }
                            lagged = Some(text.clone());
                        }
                        _ => {}
                    }
                }
                out2.push(ev);
            }
            out = out2;
        }
    }
    *events = out;
}

/// Caller-supplied rules that match broadly and ALWAYS decline, registered up front in a sixth of the runs of
/// the model-judged checks: a rule that declines leaves the line as if the rule were absent, so every
/// model-judged line must evaluate exactly as it does without them.
pub fn decliner_variants(r: &mut Rng, events: &mut Vec<Event>) {
    if !r.chance(1, 6) || events.is_empty() { return; }
    let t0 = events[0].clock.base();
    let pats: Vec<Vec<String>> = vec![
        vec!["{NUMBER:n} {TEXT:w}".into(), "{TEXT:w} {NUMBER:n}".into()],
        vec!["{MONEY:m} {TEXT:w}".into(), "{MONEY:m} {TEXT:w} {TEXT:v}".into()],
        vec!["{DATE:d} {TEXT:w} {TEXT:v}".into(), "{DATE:d} {TEXT:w}".into()],
        vec!["{TIME:t} {TEXT:w}".into(), "{TIME:t} {TEXT:w} {TEXT:v}".into()],
        vec!["{PERCENT:p} {TEXT:w}".into(), "{DURATION:d} {TEXT:w}".into()],
        vec!["{NUMBER:a} {NUMBER:b}".into()],
    ];
    let mut head: Vec<Event> = Vec::new();
    let mut id = 950;
    for p in pats.iter() {
        if !r.chance(2, 3) { continue; }
        for lang in ["en", "tr"] {
            id += 1;
            head.push(Event { actor: ADMIN, op: Op::Admin(AdminOp::AddRule { lang: lang.to_string(), rule: RuleSpec { id, name: format!("decliner{}", id), patterns: p.clone(), result: ResultSpec::Number(0.0), decline_num: 1, decline_den: 1, unwind_den: 0 } }), clock: ClockScript::Frozen { t: t0 } });
        }
    }
    head.extend(events.drain(..));
    *events = head;
}

/// A caller-supplied rule whose callback ALWAYS unwinds (the caller catches the unwind and keeps using the
/// calculator and the session), in a sixth of the runs of the model-judged checks: the library-level analogue
/// of a crash at an arbitrary point of an evaluation. The evaluation that hits it is lost (nothing to judge);
/// everything afterwards must follow the models as if it had never happened.
pub fn unwind_variants(r: &mut Rng, events: &mut Vec<Event>) { unwind_variants_at(r, events, 6, 6) }

/// `run_den`: one run in so many gets the rule; `event_den`: one eligible step in so many hits it
pub fn unwind_variants_at(r: &mut Rng, events: &mut Vec<Event>, run_den: u64, event_den: u64) {
    if !r.chance(1, run_den) || events.is_empty() { return; }
    let t0 = events[0].clock.base();
    let mut head: Vec<Event> = Vec::new();
    for (k, lang) in ["en", "tr"].iter().enumerate() {
        head.push(Event { actor: ADMIN, op: Op::Admin(AdminOp::AddRule { lang: lang.to_string(), rule: RuleSpec { id: 990 + k as u32, name: "boomrule".into(), patterns: vec!["boom {NUMBER:n}".into()], result: ResultSpec::Number(0.0), decline_num: 0, decline_den: 0, unwind_den: 1 } }), clock: ClockScript::Frozen { t: t0 } });
    }
    for ev in events.iter_mut() {
        if !ev.clock.is_frozen() || !r.chance(1, event_den) { continue; }
        if let Op::Execute { text, .. } | Op::SessionText { text } = &mut ev.op {
            if text.lines.is_empty() { continue; }
            let at = r.usize(text.lines.len());
            if r.chance(1, 3) {
                // as the LAST line: everything before it has been evaluated when the callback unwinds
                text.lines.push(Line::Raw(format!("boom {}", r.below(30))));
                text.crlf.push(false);
            } else if r.chance(1, 2) {
                // on a line of its own, somewhere in the text
                text.lines.insert(at, Line::Raw(format!("boom {}", r.below(30))));
                text.crlf.insert(at.min(text.crlf.len()), false);
            } else {
                // at the end of an existing line (whatever that line had rewritten before the callback ran)
                let base = match &text.lines[at] { Line::Raw(s) => s.clone(), Line::Sem(st) => crate::lang::render_stmt(st, &crate::lang::Fmt::default()) };
                text.lines[at] = Line::Raw(format!("{} boom {}", base, r.below(30)));
            }
        }
    }
    head.extend(events.drain(..));
    *events = head;
}

/// delete_rule called with names of the library's OWN rule functions (a tenth of the runs of the model-judged
/// checks, two or three calls at random places): they are no custom rules, so the call is refused and every
/// later line means what it meant before.
pub fn builtin_delete_variants(r: &mut Rng, events: &mut Vec<Event>, names: &[&str]) {
    if !r.chance(1, 10) || events.len() < 2 || names.is_empty() { return; }
    for _ in 0..(2 + r.below(2)) {
        let at = 1 + r.usize(events.len() - 1);
        let clock = ClockScript::Frozen { t: events[at - 1].clock.base() };
        let lang = if r.chance(1, 5) { "tr" } else { "en" };
        events.insert(at, Event { actor: ADMIN, op: Op::Admin(AdminOp::DeleteRule { lang: lang.to_string(), name: r.pick(names).to_string() }), clock });
    }
}
