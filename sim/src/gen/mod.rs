pub mod raw;
pub mod clocks;
