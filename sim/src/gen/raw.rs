//! Raw (unjudged) line generators for every feature family of the calculator,
//! plus mutators that turn well-formed lines into malformed ones.  Used as
//! workload by the checks whose oracle needs no semantic model (C01 totality,
//! C04 projection, C18 survivors probes).

use crate::cfgdata::CfgData;
use crate::prng::Rng;

pub const NAME_WORDS: &[&str] = &[
    "alpha", "bravo", "charlie", "delta", "salary", "rental", "budget", "bonus", "taxes", "savings",
    "maaşım", "kirası", "toplamı", "ödeme", "çarşamba", "gross", "netto", "apple", "banana", "income",
];

pub struct RawGen<'a> {
    pub data: &'a CfgData,
    pub rated: Vec<String>,
    pub zones: Vec<String>,
}

impl<'a> RawGen<'a> {
    pub fn new(data: &'a CfgData) -> RawGen<'a> {
        let rated: Vec<String> = data.rates.keys().cloned().collect();
        let zones: Vec<String> = data.zones.keys().filter(|z| !data.currencies.contains_key(&z.to_uppercase()) && z.chars().all(|c| c.is_ascii_uppercase())).cloned().collect();
        RawGen { data, rated, zones }
    }

    pub fn number(&self, r: &mut Rng, dec: &str) -> String {
        match r.below(10) {
            0 => format!("{}", r.below(10)),
            1 => format!("{}", r.below(1000)),
            2 => format!("{}{}{}", r.below(1000), dec, r.below(100)),
            3 => format!("-{}", r.below(100)),
            4 => format!("{}{}", r.below(100), r.pick(&["k", "M", "G", "T", "P", "Z", "Y", "K"])),
            5 => format!("{}", r.below(1_000_000_000)),
            6 => format!("0{}{}", dec, r.below(1000)),
            7 => format!("{}.{:03}", r.below(999) + 1, r.below(1000)),
            8 => format!("{}", r.below(40)),
            _ => format!("{}", r.below(100_000)),
        }
    }

    pub fn small_int(&self, r: &mut Rng) -> String { format!("{}", r.below(60)) }

    pub fn arith(&self, r: &mut Rng, dec: &str) -> String {
        let mut s = self.number(r, dec);
        let n = 1 + r.below(4);
        for _ in 0..n {
            let op = *r.pick(&["+", "-", "*", "/", " + ", " - ", " * ", " / ", " "]);
            let rhs = if r.chance(1, 5) { format!("({} {} {})", self.number(r, dec), r.pick(&["+", "-", "*", "/"]), self.number(r, dec)) } else { self.number(r, dec) };
            s = format!("{}{}{}", s, op, rhs);
        }
        if r.chance(1, 8) { s = format!("-{}", s); }
        if r.chance(1, 8) { s = format!("({})", s); }
        s
    }

    pub fn percent(&self, r: &mut Rng, dec: &str) -> String {
        let p = if r.chance(1, 2) { format!("{}%", self.number(r, dec)) } else { format!("%{}", self.number(r, dec)) };
        let x = if r.chance(1, 3) { self.money(r, dec) } else { self.number(r, dec) };
        match r.below(9) {
            0 => format!("{} + {}", x, p),
            1 => format!("{} - {}", x, p),
            2 => format!("{} of {}", p, x),
            3 => format!("{} on {}", p, x),
            4 => format!("{} off {}", p, x),
            5 => format!("{} is what % of {}", x, self.number(r, dec)),
            6 => format!("{} is {} of what", x, p),
            7 => format!("{} {}", p, x),
            _ => p,
        }
    }

    pub fn currency_word(&self, r: &mut Rng) -> String {
        let code = r.pick(&self.rated).clone();
        let words = self.data.currency_words(&code);
        let w = r.pick(&words).clone();
        match r.below(4) { 0 => w.to_uppercase(), 1 => capitalize(&w), _ => w }
    }

    pub fn money(&self, r: &mut Rng, dec: &str) -> String {
        let n = self.number(r, dec);
        match r.below(6) {
            0 => format!("{}{}", r.pick(&["$", "€", "₺", "£", "¥"]), n),
            1 => format!("{} {}", n, self.currency_word(r)),
            2 => format!("{}{}", n, self.currency_word(r)),
            3 => format!("{} {}", n, r.pick(&["$", "€", "₺"])),
            4 => format!("{}{}", n, r.pick(&["$", "€", "₺"])),
            _ => format!("{} {}", n, self.currency_word(r)),
        }
    }

    pub fn money_line(&self, r: &mut Rng, dec: &str) -> String {
        let m = self.money(r, dec);
        match r.below(8) {
            0 => format!("{} {} {}", m, r.pick(&["to", "in", "into", "as"]), self.currency_word(r)),
            1 => format!("{} {}", m, self.currency_word(r)),
            2 => format!("{} + {}", m, self.money(r, dec)),
            3 => format!("{} - {}", m, self.money(r, dec)),
            4 => format!("{} * {}", m, self.number(r, dec)),
            5 => format!("{} / {}", m, self.number(r, dec)),
            6 => format!("{} / {}", m, self.money(r, dec)),
            _ => m,
        }
    }

    pub fn month_word(&self, r: &mut Rng, lang: &str) -> String {
        let ld = &self.data.langs[if self.data.langs.contains_key(lang) { lang } else { "en" }];
        let all: Vec<&String> = ld.long_months.keys().chain(ld.short_months.keys()).collect();
        let w = (*r.pick(&all)).clone();
        match r.below(4) { 0 => capitalize(&w), 1 => w.to_uppercase(), _ => w }
    }

    pub fn date(&self, r: &mut Rng, lang: &str) -> String {
        let d = match r.below(8) { 0 => 31, 1 => 30, 2 => 29, 3 => 28, _ => 1 + r.below(28) };
        let m = 1 + r.below(12);
        let y = match r.below(8) { 0 => 1 + r.below(9999), 1 => 1970 + r.below(80), 2 => 2024, 3 => 1900, _ => 1990 + r.below(60) };
        let rel = if lang == "tr" { ["bugün", "yarın", "dün", "bugun"] } else { ["today", "tomorrow", "yesterday", "Today"] };
        match r.below(8) {
            0 => format!("{}/{}/{}", d, m, y),
            1 => format!("{} {} {}", d, self.month_word(r, lang), y),
            2 => format!("{} {}, {}", self.month_word(r, lang), d, y),
            3 => format!("{} {} {}", self.month_word(r, lang), d, y),
            4 => format!("{} {}", d, self.month_word(r, lang)),
            5 => r.pick(&rel).to_string(),
            6 => format!("{:02}/{:02}/{}", d, m, y),
            _ => format!("{}/{}/{}", d, m, y),
        }
    }

    pub fn duration_word(&self, r: &mut Rng, lang: &str) -> String {
        let ld = &self.data.langs[if self.data.langs.contains_key(lang) { lang } else { "en" }];
        let all: Vec<&String> = ld.duration_words.keys().collect();
        (*r.pick(&all)).clone()
    }

    pub fn duration(&self, r: &mut Rng, lang: &str) -> String {
        let n = 1 + r.below(4);
        let mut parts = Vec::new();
        for _ in 0..n {
            let c = match r.below(8) { 0 => r.below(100000), 1 => 0, 2 => 12, 3 => 30 + r.below(400), _ => r.below(30) };
            parts.push(format!("{} {}", c, self.duration_word(r, lang)));
        }
        parts.join(" ")
    }

    pub fn date_line(&self, r: &mut Rng, lang: &str) -> String {
        let d = self.date(r, lang);
        match r.below(8) {
            0 => format!("{} + {}", d, self.duration(r, lang)),
            1 => format!("{} - {}", d, self.duration(r, lang)),
            2 => format!("{} to {}", d, self.date(r, lang)),
            3 => format!("{} at {}", d, if r.chance(1, 2) { self.time(r) } else { format!("{}", r.below(26)) }),
            4 => format!("{} {} unix", d, r.pick(&["as", "to", "in"])),
            5 => format!("{} to {}", d, r.pick(&self.zones)),
            _ => d,
        }
    }

    pub fn zone(&self, r: &mut Rng) -> String {
        match r.below(6) {
            0 => format!("GMT{}{}", r.pick(&["+", "-", ""]), r.below(15)),
            1 => format!("GMT{}{}:{:02}", r.pick(&["+", "-"]), r.below(13), r.pick(&[0, 30, 45, 15])),
            2 => r.pick(&self.zones).to_lowercase(),
            _ => r.pick(&self.zones).clone(),
        }
    }

    pub fn time(&self, r: &mut Rng) -> String {
        let h = r.below(24);
        let m = r.below(60);
        let base = match r.below(6) {
            0 => format!("{}:{:02}:{:02}", h, m, r.below(60)),
            1 => format!("{}:{:02} {}", 1 + r.below(12), m, r.pick(&["am", "pm", "AM", "PM"])),
            2 => format!("{}{}", 1 + r.below(12), r.pick(&["am", "pm", " am", " pm"])),
            3 => format!("{:02}:{:02}", h, m),
            _ => format!("{}:{:02}", h, m),
        };
        if r.chance(1, 2) { format!("{} {}", base, self.zone(r)) } else { base }
    }

    pub fn time_line(&self, r: &mut Rng, lang: &str) -> String {
        let t = self.time(r);
        match r.below(9) {
            0 => format!("{} {} {}", t, r.pick(&["to", "in", "as", "into"]), self.zone(r)),
            1 => format!("{} + {}", t, self.duration(r, lang)),
            2 => format!("{} - {}", t, self.duration(r, lang)),
            3 => format!("{} to {}", t, self.time(r)),
            4 => format!("{} {} unix", t, r.pick(&["as", "to"])),
            5 => format!("{} as {}", t, r.pick(&["hours", "minutes", "seconds", "days", "weeks"])),
            6 => "now".to_string(),
            _ => t,
        }
    }

    pub fn duration_line(&self, r: &mut Rng, lang: &str) -> String {
        let d = self.duration(r, lang);
        match r.below(5) {
            0 => format!("{} + {}", d, self.duration(r, lang)),
            1 => format!("{} - {}", d, self.duration(r, lang)),
            2 => format!("{} as {}", d, r.pick(&["hours", "minutes", "seconds", "days", "weeks", "months", "years"])),
            _ => d,
        }
    }

    pub fn unit_word(&self, r: &mut Rng) -> String {
        let u = r.pick(&self.data.units);
        let all: Vec<&String> = u.names.iter().chain(u.parse_words.iter()).collect();
        (*r.pick(&all)).clone()
    }

    pub fn unit_line(&self, r: &mut Rng, dec: &str) -> String {
        let q = format!("{} {}", self.number(r, dec), self.unit_word(r));
        match r.below(7) {
            0 => format!("{} {} {}", q, r.pick(&["to", "in", "as", "into"]), self.unit_word(r)),
            1 => format!("{} + {} {}", q, self.number(r, dec), self.unit_word(r)),
            2 => format!("{} * {}", q, self.number(r, dec)),
            3 => format!("{} / {} {}", q, self.number(r, dec), self.unit_word(r)),
            4 => format!("{}{}", self.number(r, dec), self.unit_word(r)),
            _ => q,
        }
    }

    pub fn base_line(&self, r: &mut Rng) -> String {
        let lit = match r.below(4) {
            0 => format!("0x{:X}", r.below(1 << 40)),
            1 => format!("0b{:b}", r.below(1 << 20)),
            2 => format!("0o{:o}", r.below(1 << 30)),
            _ => format!("{}", r.below(1 << 33)),
        };
        match r.below(4) {
            0 => format!("{} {} {}", lit, r.pick(&["to", "as", "in"]), r.pick(&["hex", "octal", "binary", "decimal", "hexadecimal"])),
            1 => format!("{} {}", lit, r.pick(&["hex", "octal", "binary", "decimal"])),
            2 => format!("{} + {}", lit, r.below(100)),
            _ => lit,
        }
    }

    pub fn unix_line(&self, r: &mut Rng) -> String {
        let ts = match r.below(6) { 0 => r.below(1 << 31), 1 => (1 << 31) + r.below(1 << 33), 2 => 0, 3 => 253402300799 - r.below(1000), _ => 1_500_000_000 + r.below(500_000_000) };
        match r.below(5) {
            0 => format!("{} to date", ts),
            1 => format!("{} date", ts),
            2 => format!("{} to {}", ts, self.zone(r)),
            3 => format!("{} {}", ts, self.zone(r)),
            _ => format!("{} as date", ts),
        }
    }

    pub fn name(&self, r: &mut Rng) -> String {
        let n = 1 + r.below(3);
        let mut w = Vec::new();
        for _ in 0..n { w.push(r.pick(NAME_WORDS).to_string()); }
        w.join(" ")
    }

    /// any well-formed line of any family
    pub fn any_line(&self, r: &mut Rng, lang: &str, dec: &str) -> String {
        match r.below(12) {
            0 => self.arith(r, dec),
            1 => self.percent(r, dec),
            2 => self.money_line(r, dec),
            3 => self.date_line(r, lang),
            4 => self.time_line(r, lang),
            5 => self.duration_line(r, lang),
            6 => self.unit_line(r, dec),
            7 => self.base_line(r),
            8 => self.unix_line(r),
            9 => if r.chance(1, 4) { let n = self.name(r); format!("{} = {} {} {}", n, n, r.pick(&["+", "*", "-"]), self.number(r, dec)) } else { format!("{} = {}", self.name(r), self.any_value(r, lang, dec)) },
            10 => format!("{} {} {}", self.name(r), r.pick(&["+", "-", "*", "/", "to", "add", "times"]), self.any_value(r, lang, dec)),
            _ => self.arith(r, dec),
        }
    }

    pub fn any_value(&self, r: &mut Rng, lang: &str, dec: &str) -> String {
        match r.below(9) {
            0 => self.number(r, dec),
            1 => format!("{}%", self.number(r, dec)),
            2 => self.money(r, dec),
            3 => self.date(r, lang),
            4 => self.time(r),
            5 => self.duration(r, lang),
            6 => format!("{} {}", self.number(r, dec), self.unit_word(r)),
            7 => self.arith(r, dec),
            _ => self.name(r),
        }
    }

    /// a line that must fail to evaluate and contains no '='
    pub fn failing_line(&self, r: &mut Rng) -> String {
        match r.below(6) {
            0 => format!("{} +", r.below(100)),
            1 => format!("({} + {}", r.below(100), r.below(100)),
            2 => format!("{} hour + {}", 1 + r.below(5), r.below(100)),
            3 => format!("{} *", r.below(100)),
            4 => format!("{} * ({} -", r.below(100), r.below(100)),
            _ => format!("{} / (", r.below(100)),
        }
    }
}

pub fn capitalize(w: &str) -> String {
    let mut c = w.chars();
    match c.next() { Some(f) => f.to_uppercase().collect::<String>() + c.as_str(), None => String::new() }
}

const SPLICE_TOKENS: &[&str] = &[
    "+", "-", "*", "/", "(", ")", "=", "%", "#", "$", "€", "₺", "to", "of", "on", "off", "as", "in", "at", "is", "what", "date", "unix",
    "today", "tomorrow", "now", "hour", "days", "months", "years", "week", "km", "mb", "usd", "try", "EST", "GMT+3", "GMT-", "am", "pm",
    "0x", "0b", "0o", "0xZZ", "k", "M", ",", ".", ":", "12:", ":30", "24", "60", "31", "0", "00", "29 feb", "february 30", "december",
    "[NUMBER:1]", "[NUMBER:abc]", "[TIME:100]", "[TIME:x]", "[TIME:99999999]", "[MONEY:1;usd]", "[MONEY:x;usd]", "[MONEY:1]", "[PERCENT:x]", "[PERCENT:5]", "[OPERATOR:+]", "[OPERATOR:]", "[FOO:1]",
    "{NUMBER:a}", "{TEXT:a:b}", "{GROUP:a:b}", "{GROUP:a}", "{FOO:a}", "{MONTH:m}", "{DATE:d}", "{NUMBER_OR_MONEY:x}",
    "ş", "İ", "ı", "ß", "日本", "🙂", "\u{0301}", "\u{200d}", "\t", "\r", "−", "_", ";", "!", "?", "'", "&", "^", "\\", "\"", "|", "~", "<", ">",
    "9999999999999999999999", "99999 years", "100000000 days", "1e309", "0,0,0", "1.2.3", "1/1/1", "32/1/2020", "1/13/2020", "29/2/2021", "31/4/2020", "1/1/0", "1/1/99999",
];

/// mutate a well-formed line into something a user could mistype or a fuzzer could produce
pub fn mutate(r: &mut Rng, line: &str, other: &str) -> String {
    let chars: Vec<char> = line.chars().collect();
    match r.below(12) {
        0 => { // splice a token somewhere
            let pos = r.usize(chars.len() + 1);
            let tok = r.pick(SPLICE_TOKENS);
            let mut s: String = chars[..pos].iter().collect();
            if r.chance(1, 2) { s.push(' '); }
            s.push_str(tok);
            if r.chance(1, 2) { s.push(' '); }
            s.extend(chars[pos..].iter());
            s
        }
        1 => { // delete a random span
            if chars.is_empty() { return line.to_string(); }
            let a = r.usize(chars.len());
            let b = (a + 1 + r.usize(4)).min(chars.len());
            chars[..a].iter().chain(chars[b..].iter()).collect()
        }
        2 => { // duplicate a span
            if chars.is_empty() { return line.to_string(); }
            let a = r.usize(chars.len());
            let b = (a + 1 + r.usize(6)).min(chars.len());
            let mut s: String = chars[..b].iter().collect();
            s.extend(chars[a..b].iter());
            s.extend(chars[b..].iter());
            s
        }
        3 => { // cross two lines
            let o: Vec<char> = other.chars().collect();
            let a = r.usize(chars.len() + 1);
            let b = r.usize(o.len() + 1);
            chars[..a].iter().chain(o[b..].iter()).collect()
        }
        4 => { // long digit run
            let pos = r.usize(chars.len() + 1);
            let n = 10 + r.usize(31);
            let mut s: String = chars[..pos].iter().collect();
            for _ in 0..n { s.push(char::from(b'0' + r.below(10) as u8)); }
            s.extend(chars[pos..].iter());
            s
        }
        5 => format!("{} {}", line, r.pick(SPLICE_TOKENS)),
        6 => format!("{} {}", r.pick(SPLICE_TOKENS), line),
        7 => { // replace one digit run by an extreme
            let ext = *r.pick(&["0", "24", "60", "12", "13", "31", "32", "99999", "2147483648", "9223372036854775807", "00"]);
            let which = r.usize(4);
            let mut s = String::new();
            let mut run = 0usize;
            let mut i = 0;
            while i < chars.len() {
                if chars[i].is_ascii_digit() {
                    let st = i;
                    while i < chars.len() && chars[i].is_ascii_digit() { i += 1; }
                    if run == which { s.push_str(ext); } else { s.extend(chars[st..i].iter()); }
                    run += 1;
                } else {
                    s.push(chars[i]);
                    i += 1;
                }
            }
            s
        }
        8 => { // swap case
            chars.iter().map(|c| if r.chance(1, 2) { c.to_uppercase().next().unwrap_or(*c) } else { c.to_lowercase().next().unwrap_or(*c) }).collect()
        }
        9 => { // parentheses noise
            let n = 1 + r.usize(5);
            format!("{}{}{}", "(".repeat(n), line, ")".repeat(r.usize(n + 2)))
        }
        10 => { // append comment or junk
            format!("{} # {}", line, other)
        }
        _ => { // random unicode soup
            let n = 1 + r.usize(20);
            let mut s = String::new();
            for _ in 0..n {
                let c = match r.below(6) {
                    0 => char::from_u32(0x20 + r.below(0x5f) as u32).unwrap(),
                    1 => char::from_u32(0xa0 + r.below(0x200) as u32).unwrap_or('x'),
                    2 => char::from_u32(0x20a0 + r.below(0x20) as u32).unwrap_or('x'),
                    3 => char::from_u32(0x4e00 + r.below(0x100) as u32).unwrap_or('x'),
                    4 => char::from(b'0' + r.below(10) as u8),
                    _ => *r.pick(&[' ', ':', '/', '%', '=', '(', ')', '+', '-', '*', '[', ']', '{', '}', ',', '.']),
                };
                s.push(c);
            }
            s
        }
    }
}
