//! Driver (spawns worker processes, aggregates, decides, writes evidence and
//! replay files), worker loop, replay.

use std::collections::{BTreeMap, BTreeSet};
use std::io::{BufRead, BufReader, Write};
use std::process::{Child, Command, Stdio};
use std::sync::mpsc;
use std::time::{Duration, Instant};

use serde::{Deserialize, Serialize};
use serde_json::json;

use crate::checks::{self, Check, Env, Violation};
use crate::gen::clocks::HOST_ZONES;
use crate::prng::mix;
use crate::shrink::shrink;
use crate::trace::Trace;

pub fn verif_dir() -> String {
    std::env::var("VERIF_DIR").unwrap_or_else(|_| "/verif".to_string())
}

// ---------------------------------------------------------------------------
// known findings
// ---------------------------------------------------------------------------

#[derive(Debug, Clone, Serialize, Deserialize)]
pub struct Finding {
    pub property: String,
    pub key: String,
    pub what: String,
}

#[derive(Debug, Clone, Serialize, Deserialize, Default)]
pub struct KnownFindings {
    pub findings: Vec<Finding>,
    #[serde(default)]
    pub fixed: Vec<String>,
}

pub fn load_known() -> KnownFindings {
    let p = format!("{}/known_findings.json", verif_dir());
    match std::fs::read_to_string(&p) {
        Ok(s) => serde_json::from_str(&s).unwrap_or_else(|e| { eprintln!("harness error: {} does not parse: {}", p, e); std::process::exit(2) }),
        Err(_) => KnownFindings::default(),
    }
}

// ---------------------------------------------------------------------------
// worker
// ---------------------------------------------------------------------------

#[derive(Debug, Clone, Serialize, Deserialize)]
pub struct VioOut {
    pub v: Violation,
    /// minimised trace (absent for repeated keys and for known findings after the first)
    pub min: Option<Trace>,
    pub min_event: Option<usize>,
    pub orig_events: usize,
}

#[derive(Debug, Clone, Serialize, Deserialize)]
pub struct RunLine {
    pub i: u64,
    pub seed: u64,
    pub trace_hash: u64,
    pub inter_hash: u64,
    pub obs_hash: u64,
    pub events: usize,
    pub judged: u64,
    pub unjudged: u64,
    pub evaluations: u64,
    pub clock_reads: u64,
    pub sim_span_s: f64,
    pub counters: BTreeMap<String, u64>,
    pub states: Vec<u64>,
    pub violations: Vec<VioOut>,
    pub sample: Option<Trace>,
    pub mode: String,
}

fn indices_for(total: u64, zone: u64, slot: u64, nslots: u64) -> Vec<u64> {
    let nz = HOST_ZONES.len() as u64;
    (0..total).filter(|i| i % nz == zone && (i / nz) % nslots == slot).collect()
}

pub fn worker_main(args: &[String]) -> i32 {
    if args.len() < 7 { eprintln!("usage: sim worker ID tier base total zone slot nslots [i,j,k]"); return 2; }
    let id = &args[0];
    let tier = &args[1];
    let base: u64 = args[2].parse().unwrap();
    let total: u64 = args[3].parse().unwrap();
    let zone: u64 = args[4].parse().unwrap();
    let slot: u64 = args[5].parse().unwrap();
    let nslots: u64 = args[6].parse().unwrap();
    let explicit: Option<Vec<u64>> = args.get(7).map(|s| s.split(',').filter(|x| !x.is_empty()).map(|x| x.parse().unwrap()).collect());
    let no_shrink = std::env::var("VERIF_NO_SHRINK").is_ok();
    let check = match checks::get(id) { Some(c) => c, None => { eprintln!("unknown check {}", id); return 2; } };
    // a runaway evaluation may also allocate without bound: cap the address space of the worker, so
    // that it aborts (and is reported as a run that did not return) instead of exhausting the machine
    unsafe {
        let cap: libc::rlim_t = env_u64("VERIF_WORKER_MEM_MB", 4096) as libc::rlim_t * 1024 * 1024;
        let lim = libc::rlimit { rlim_cur: cap, rlim_max: cap };
        libc::setrlimit(libc::RLIMIT_AS, &lim);
    }
    let env = Env::new();
    if env.host_tz != HOST_ZONES[zone as usize] { eprintln!("harness error: worker TZ {:?} != zone {}", env.host_tz, zone); return 2; }
    let known: BTreeSet<String> = load_known().findings.iter().filter(|f| &f.property == id).map(|f| f.key.clone()).collect();
    let mut seen: BTreeSet<String> = BTreeSet::new();
    let idx = explicit.unwrap_or_else(|| indices_for(total, zone, slot, nslots));
    let out = std::io::stdout();
    for i in idx {
        { let mut o = out.lock(); writeln!(o, "B {}", i).unwrap(); o.flush().unwrap(); }
        let seed = mix(base, id, i);
        // a panic out here (outside the guarded calls into smartcalc) is a harness bug, never a finding
        let run = std::panic::catch_unwind(std::panic::AssertUnwindSafe(|| {
            let trace = check.generate(seed, tier, &env);
            let rep = check.execute(&trace, &env);
            (trace, rep)
        }));
        let (trace, rep) = match run {
            Ok(x) => x,
            Err(_) => {
                let mut o = out.lock();
                writeln!(o, "X {} harness panic while generating/executing index {} (seed {})", i, i, seed).unwrap();
                o.flush().unwrap();
                continue;
            }
        };
        let mut vios = Vec::new();
        // minimisation of all new keys of one run shares one budget, well below the driver's watchdog limit
        let shrink_deadline = crate::clock::real_monotonic_s() + 12.0;
        for v in rep.violations.iter() {
            let first = seen.insert(v.key.clone());
            let mut min = None;
            let mut min_event = None;
            if first {
                if known.contains(&v.key) || no_shrink {
                    // known finding: keep the original trace cut after the event, no search
                    let mut c = trace.clone();
                    c.events.truncate(v.event + 1);
                    if check.execute(&c, &env).violations.iter().any(|x| x.key == v.key) { min = Some(c); } else { min = Some(trace.clone()); }
                } else {
                    let left = (shrink_deadline - crate::clock::real_monotonic_s()).min(8.0);
                    let m = if left > 0.5 { shrink(check.as_ref(), &trace, &env, &v.key, v.event, left) } else { let mut c = trace.clone(); c.events.truncate(v.event + 1); if check.execute(&c, &env).violations.iter().any(|x| x.key == v.key) { c } else { trace.clone() } };
                    min = Some(m);
                }
                if let Some(m) = &min {
                    min_event = check.execute(m, &env).violations.iter().find(|x| x.key == v.key).map(|x| x.event);
                }
            }
            vios.push(VioOut { v: v.clone(), min, min_event, orig_events: trace.events.len() });
        }
        let line = RunLine {
            i, seed, trace_hash: trace.hash(), inter_hash: trace.interleaving_hash(), obs_hash: rep.obs_hash, events: trace.events.len(),
            judged: rep.judged, unjudged: rep.unjudged, evaluations: rep.evaluations, clock_reads: rep.clock_reads, sim_span_s: rep.sim_span_s,
            counters: rep.counters.clone(), states: rep.states.iter().cloned().collect(), violations: vios,
            sample: if i < 3 { Some(trace.clone()) } else { None }, mode: trace.mode.clone(),
        };
        let mut o = out.lock();
        writeln!(o, "R {}", serde_json::to_string(&line).unwrap()).unwrap();
        o.flush().unwrap();
    }
    let mut o = out.lock();
    writeln!(o, "E").unwrap();
    o.flush().unwrap();
    0
}

// ---------------------------------------------------------------------------
// replay
// ---------------------------------------------------------------------------

#[derive(Debug, Clone, Serialize, Deserialize)]
pub struct ReplayFile {
    pub property: String,
    pub key: String,
    pub oracle: String,
    pub event: usize,
    pub detail: String,
    pub seed: u64,
    pub base_seed: u64,
    pub index: u64,
    pub host_tz: String,
    pub original_events: usize,
    pub trace: Trace,
}

/// sim replay <file> [--explain] : exit 1 and print the violation if the file's
/// violation reproduces, 0 if the trace now passes, 2 on harness error
pub fn replay_main(args: &[String]) -> i32 {
    let path = match args.first() { Some(p) => p, None => { eprintln!("usage: sim replay <file> [--explain]"); return 2; } };
    let explain = args.iter().any(|a| a == "--explain");
    let txt = match std::fs::read_to_string(path) { Ok(t) => t, Err(e) => { eprintln!("cannot read {}: {}", path, e); return 2; } };
    let rf: ReplayFile = match serde_json::from_str(&txt) { Ok(r) => r, Err(e) => { eprintln!("cannot parse {}: {}", path, e); return 2; } };
    let cur_tz = std::env::var("TZ").unwrap_or_default();
    if cur_tz != rf.host_tz {
        // re-exec under the host zone of the trace
        let exe = std::env::current_exe().unwrap();
        let st = Command::new(exe).args(std::iter::once("replay".to_string()).chain(args.iter().cloned())).env("TZ", &rf.host_tz).status().unwrap();
        return st.code().unwrap_or(2);
    }
    if rf.key == "no-return" && !args.iter().any(|a| a == "--in-child") {
        // a trace that does not return is executed in a child process under a time limit
        let limit = env_u64("VERIF_HANG_S", 20);
        println!("replay of {} (property {}, key no-return, {} events, host TZ {:?}) in a child process, limit {} s", path, rf.property, rf.trace.events.len(), rf.host_tz, limit);
        return match exec_with_limit(&rf.trace, limit) {
            Some(true) => { println!("NOT-REPRODUCED: the trace returns on this tree"); 0 }
            Some(false) | None => { println!("VIOLATION property={} replay={}", rf.property, path); println!("REPRODUCED key=no-return event={}", rf.event); 1 }
        };
    }
    let check = match checks::get(&rf.property) { Some(c) => c, None => { eprintln!("unknown check {}", rf.property); return 2; } };
    let mut env = Env::new();
    env.explain = explain;
    let rep = check.execute(&rf.trace, &env);
    println!("replay of {} (property {}, seed {}, {} events, host TZ {:?})", path, rf.property, rf.seed, rf.trace.events.len(), rf.host_tz);
    if explain {
        for (i, e) in rf.trace.events.iter().enumerate() { println!("  event {}: actor {} {:?} clock {:?}", i, e.actor, e.op, e.clock); }
    }
    let mut same = false;
    for v in rep.violations.iter() {
        println!("  violation oracle={} key={} event={}\n    {}", v.oracle, v.key, v.event, v.detail);
        if v.key == rf.key { same = true; }
    }
    if same {
        println!("VIOLATION property={} replay={}", rf.property, path);
        println!("REPRODUCED key={} event={}", rf.key, rep.violations.iter().find(|v| v.key == rf.key).map(|v| v.event).unwrap_or(0));
        1
    } else if rep.violations.is_empty() {
        println!("NOT-REPRODUCED: the trace passes on this tree");
        0
    } else {
        println!("DIFFERENT: the trace fails, but not with key {}", rf.key);
        1
    }
}

// ---------------------------------------------------------------------------
// driver
// ---------------------------------------------------------------------------

enum Msg {
    Begin { w: usize, i: u64 },
    Run { w: usize, line: Box<RunLine> },
    End { w: usize },
    Eof { w: usize },
    Garbage { w: usize, text: String },
    HarnessPanic { w: usize, i: u64, text: String },
}

struct Worker {
    child: Child,
    zone: u64,
    /// indices still to be reported by this worker, in order
    pending: Vec<u64>,
    open: Option<(u64, Instant)>,
    done: bool,
    eof: bool,
}

fn spawn_worker(id: &str, tier: &str, base: u64, total: u64, zone: u64, indices: &[u64], tx: &mpsc::Sender<Msg>, w: usize) -> Child {
    let exe = std::env::current_exe().unwrap();
    let list = indices.iter().map(|x| x.to_string()).collect::<Vec<_>>().join(",");
    let mut child = Command::new(exe)
        .args(["worker", id, tier, &base.to_string(), &total.to_string(), &zone.to_string(), "0", "1", &list])
        .env("TZ", HOST_ZONES[zone as usize])
        .stdin(Stdio::null()).stdout(Stdio::piped()).stderr(Stdio::piped())
        .spawn().expect("spawn worker");
    let out = child.stdout.take().unwrap();
    let tx2 = tx.clone();
    std::thread::spawn(move || {
        let rd = BufReader::new(out);
        for line in rd.lines() {
            let line = match line { Ok(l) => l, Err(_) => break };
            let msg = if let Some(rest) = line.strip_prefix("B ") {
                Msg::Begin { w, i: rest.trim().parse().unwrap_or(u64::MAX) }
            } else if let Some(rest) = line.strip_prefix("R ") {
                match serde_json::from_str::<RunLine>(rest) { Ok(l) => Msg::Run { w, line: Box::new(l) }, Err(e) => Msg::Garbage { w, text: format!("unparsable R line: {}", e) } }
            } else if let Some(rest) = line.strip_prefix("X ") {
                Msg::HarnessPanic { w, i: rest.split(' ').next().and_then(|x| x.parse().ok()).unwrap_or(u64::MAX), text: rest.to_string() }
            } else if line == "E" { Msg::End { w } } else { Msg::Garbage { w, text: line } };
            if tx2.send(msg).is_err() { break; }
        }
        let _ = tx2.send(Msg::Eof { w });
    });
    // stderr is drained to avoid blocking; its content only matters for harness errors
    let err = child.stderr.take().unwrap();
    std::thread::spawn(move || {
        let rd = BufReader::new(err);
        for line in rd.lines().map_while(Result::ok) {
            if line.contains("harness") { eprintln!("[worker {}] {}", w, line); }
        }
    });
    child
}

struct Agg {
    runs: u64,
    evaluations: u64,
    judged: u64,
    unjudged: u64,
    clock_reads: u64,
    sim_span_s: f64,
    events: u64,
    counters: BTreeMap<String, u64>,
    trace_hashes: BTreeSet<u64>,
    nontrivial_hashes: BTreeSet<u64>,
    inter_hashes: BTreeSet<u64>,
    states: BTreeSet<u64>,
    modes: BTreeMap<String, u64>,
    samples: Vec<serde_json::Value>,
    /// per index: (trace_hash, obs_hash)
    hashes: BTreeMap<u64, (u64, u64)>,
    /// per key: (count, best)
    vios: BTreeMap<String, (u64, Option<(u64, u64, VioOut)>)>,
}

impl Agg {
    fn new() -> Agg {
        Agg { runs: 0, evaluations: 0, judged: 0, unjudged: 0, clock_reads: 0, sim_span_s: 0.0, events: 0, counters: BTreeMap::new(), trace_hashes: BTreeSet::new(), nontrivial_hashes: BTreeSet::new(), inter_hashes: BTreeSet::new(), states: BTreeSet::new(), modes: BTreeMap::new(), samples: vec![], hashes: BTreeMap::new(), vios: BTreeMap::new() }
    }
    fn add(&mut self, l: RunLine) {
        self.runs += 1;
        self.evaluations += l.evaluations;
        self.judged += l.judged;
        self.unjudged += l.unjudged;
        self.clock_reads += l.clock_reads;
        self.sim_span_s += l.sim_span_s;
        self.events += l.events as u64;
        let fired: u64 = l.counters.iter().filter(|(k, _)| is_fault_key(k)).map(|(_, v)| *v).sum();
        for (k, v) in l.counters.iter() { *self.counters.entry(k.clone()).or_insert(0) += v; }
        self.trace_hashes.insert(l.trace_hash);
        if l.judged > 0 && fired > 0 { self.nontrivial_hashes.insert(l.trace_hash); }
        self.inter_hashes.insert(l.inter_hash);
        for s in l.states.iter() { self.states.insert(*s); }
        *self.modes.entry(l.mode.clone()).or_insert(0) += 1;
        self.hashes.insert(l.i, (l.trace_hash, l.obs_hash));
        if let Some(t) = &l.sample { self.samples.push(json!({"index": l.i, "seed": l.seed, "trace": t})); }
        for v in l.violations.iter() {
            let e = self.vios.entry(v.v.key.clone()).or_insert((0, None));
            e.0 += 1;
            if let Some(m) = &v.min {
                let better = match &e.1 { None => true, Some((_, _, old)) => m.events.len() < old.min.as_ref().map(|t| t.events.len()).unwrap_or(usize::MAX) };
                if better { e.1 = Some((l.i, l.seed, v.clone())); }
            }
        }
    }
}

/// counters named "<group>.<kind>" are injected faults that actually fired, except the
/// probe.* (reach probes) and unjudged.* (why a step was not judged) groups
fn is_fault_key(k: &str) -> bool {
    k.contains('.') && !k.starts_with("probe.") && !k.starts_with("unjudged.")
}

fn env_u64(name: &str, default: u64) -> u64 {
    std::env::var(name).ok().and_then(|s| s.parse().ok()).unwrap_or(default)
}

pub fn check_main(args: &[String]) -> i32 {
    if args.len() < 2 { eprintln!("usage: sim check <ID> <quick|thorough>"); return 2; }
    let id = args[0].clone();
    let tier = args[1].clone();
    let check = match checks::get(&id) { Some(c) => c, None => { eprintln!("unknown check {}", id); return 2; } };
    let base = env_u64("VERIF_SEED", 1);
    let nworkers = env_u64("VERIF_WORKERS", 16).max(1) as usize;
    let total = env_u64("VERIF_RUNS", check.budget(&tier));
    let hang_s = env_u64("VERIF_HANG_S", 20);
    let t_start = Instant::now();
    println!("check {} tier={} VERIF_SEED={} runs={} workers={}", id, tier, base, total, nworkers);

    let known = load_known();
    let nz = HOST_ZONES.len();
    // distribute workers over host zones
    let mut per_zone = vec![nworkers / nz; nz];
    for z in 0..(nworkers % nz) { per_zone[z] += 1; }
    for z in 0..nz { if per_zone[z] == 0 { per_zone[z] = 1; } }
    let (tx, rx) = mpsc::channel::<Msg>();
    let mut workers: Vec<Worker> = Vec::new();
    for z in 0..nz {
        for s in 0..per_zone[z] {
            let idx = indices_for(total, z as u64, s as u64, per_zone[z] as u64);
            if idx.is_empty() { continue; }
            let w = workers.len();
            let child = spawn_worker(&id, &tier, base, total, z as u64, &idx, &tx, w);
            workers.push(Worker { child, zone: z as u64, pending: idx, open: None, done: false, eof: false });
        }
    }

    let mut agg = Agg::new();
    let mut harness_errors: Vec<String> = Vec::new();
    // indices whose execution did not come back (hang or abort): (index, why)
    let mut lost: Vec<(u64, String)> = Vec::new();
    let mut harness_lost = 0u64;
    // once this many runs did not come back the batch is stopped: every further one costs the
    // watchdog limit, and the first few are all a report needs
    let max_lost = env_u64("VERIF_MAX_LOST", 6) as usize;
    let mut stopped_early = false;
    loop {
        if workers.iter().all(|w| w.eof) { break; }
        if lost.len() >= max_lost {
            stopped_early = true;
            for w in workers.iter_mut() { let _ = w.child.kill(); let _ = w.child.wait(); w.eof = true; }
            break;
        }
        match rx.recv_timeout(Duration::from_millis(500)) {
            Ok(Msg::Begin { w, i }) => { workers[w].open = Some((i, Instant::now())); }
            Ok(Msg::Run { w, line }) => {
                workers[w].open = None;
                workers[w].pending.retain(|x| *x != line.i);
                agg.add(*line);
            }
            Ok(Msg::End { w }) => { workers[w].done = true; }
            Ok(Msg::HarnessPanic { w, i, text }) => {
                workers[w].open = None;
                workers[w].pending.retain(|x| *x != i);
                harness_errors.push(text);
                harness_lost += 1;
            }
            Ok(Msg::Garbage { w, text }) => { harness_errors.push(format!("worker {} printed unexpected line: {}", w, text.chars().take(200).collect::<String>())); }
            Ok(Msg::Eof { w }) => {
                let st = workers[w].child.wait().ok();
                if !workers[w].done {
                    // died without finishing: abort / stack overflow / killed by the watchdog
                    let why = match st { Some(s) => format!("{}", s), None => "unknown".into() };
                    let culprit = workers[w].open.map(|(i, _)| i).or_else(|| workers[w].pending.first().cloned());
                    if let Some(i) = culprit {
                        if !lost.iter().any(|(x, _)| *x == i) { lost.push((i, format!("worker exited ({})", why))); }
                        workers[w].pending.retain(|x| *x != i);
                    }
                    if !workers[w].pending.is_empty() {
                        let idx = workers[w].pending.clone();
                        let z = workers[w].zone;
                        let child = spawn_worker(&id, &tier, base, total, z, &idx, &tx, w);
                        workers[w].child = child;
                        workers[w].open = None;
                        continue;
                    }
                }
                workers[w].eof = true;
            }
            Err(mpsc::RecvTimeoutError::Timeout) => {}
            Err(_) => break,
        }
        // watchdog
        for w in workers.iter_mut() {
            if let Some((i, since)) = w.open {
                if since.elapsed() > Duration::from_secs(hang_s) && !w.eof {
                    let _ = w.child.kill();
                    if !lost.iter().any(|(x, _)| *x == i) { lost.push((i, format!("no result within {} s (killed by watchdog)", hang_s))); }
                    w.open = Some((i, Instant::now()));
                }
            }
        }
    }

    // confirm lost indices in a fresh process, alone, with a longer limit
    let mut confirmed_lost: Vec<(u64, String, Option<Trace>)> = Vec::new();
    for (i, why) in lost.iter().take(if stopped_early { 3 } else { usize::MAX }) {
        let z = (*i % nz as u64) as usize;
        match run_single(&id, &tier, base, total, z as u64, *i, 3 * hang_s) {
            SingleOutcome::Line(l) => { agg.add(l); }
            SingleOutcome::Lost(why2) => {
                let trace = dump_trace(&id, &tier, base, *i, z);
                confirmed_lost.push((*i, format!("{}; alone in a fresh process: {}", why, why2), trace));
            }
        }
    }

    // determinism guard: re-execute a sample in fresh processes with another worker layout
    let mut recheck_n = 0u64;
    let mut recheck_bad = 0u64;
    if std::env::var("VERIF_NO_RECHECK").is_err() && !stopped_early {
        let stride = if total >= 2000 { 100 } else { 20 };
        let mut by_zone: BTreeMap<u64, Vec<u64>> = BTreeMap::new();
        for i in (0..total).step_by(stride) { if agg.hashes.contains_key(&i) { by_zone.entry(i % nz as u64).or_default().push(i); } }
        let (tx2, rx2) = mpsc::channel::<Msg>();
        let mut kids = Vec::new();
        for (k, (z, idx)) in by_zone.iter().enumerate() {
            kids.push(spawn_worker_env(&id, &tier, base, total, *z, idx, &tx2, k, true));
        }
        drop(tx2);
        let deadline = Instant::now() + Duration::from_secs(120);
        let mut eofs = 0;
        while eofs < kids.len() && Instant::now() < deadline {
            match rx2.recv_timeout(Duration::from_millis(500)) {
                Ok(Msg::Run { line, .. }) => {
                    recheck_n += 1;
                    if let Some((th, oh)) = agg.hashes.get(&line.i) {
                        if *th != line.trace_hash || *oh != line.obs_hash {
                            recheck_bad += 1;
                            harness_errors.push(format!("determinism: index {} gave trace/obs hash {:x}/{:x} first and {:x}/{:x} when re-executed", line.i, th, oh, line.trace_hash, line.obs_hash));
                        }
                    }
                }
                Ok(Msg::Eof { .. }) => eofs += 1,
                Ok(_) => {}
                Err(mpsc::RecvTimeoutError::Timeout) => {}
                Err(_) => break,
            }
        }
        for mut k in kids { let _ = k.kill(); let _ = k.wait(); }
    }

    // decide
    let _ = std::fs::create_dir_all(format!("{}/replays", verif_dir()));
    let _ = std::fs::create_dir_all(format!("{}/evidence", verif_dir()));
    let mut exit = 0;
    let mut n_violations = 0u64;
    let mut known_seen: Vec<serde_json::Value> = Vec::new();
    let mut out_lines: Vec<String> = Vec::new();
    for (key, (count, best)) in agg.vios.iter() {
        let kf = known.findings.iter().find(|f| f.property == id && &f.key == key);
        if let Some(f) = kf {
            out_lines.push(format!("KNOWN-FINDING: property={} {} [key={} seen in {} runs]", id, f.what, key, count));
            known_seen.push(json!({"key": key, "runs": count}));
            continue;
        }
        n_violations += 1;
        exit = 1;
        match best {
            Some((i, seed, vo)) => {
                let trace = vo.min.clone().unwrap();
                let path = format!("{}/replays/{}-{:016x}.json", verif_dir(), id, crate::prng::fnv64(key.as_bytes()));
                let rf = ReplayFile { property: id.clone(), key: key.clone(), oracle: vo.v.oracle.clone(), event: vo.min_event.unwrap_or(vo.v.event), detail: vo.v.detail.clone(), seed: *seed, base_seed: base, index: *i, host_tz: trace.host_tz.clone(), original_events: vo.orig_events, trace };
                std::fs::write(&path, serde_json::to_string_pretty(&rf).unwrap()).unwrap();
                // the replay must reproduce in a fresh process
                let exe = std::env::current_exe().unwrap();
                let o = Command::new(exe).args(["replay", &path]).output();
                let ok = match &o { Ok(o) => String::from_utf8_lossy(&o.stdout).contains(&format!("REPRODUCED key={}", key)), Err(_) => false };
                if !ok { harness_errors.push(format!("replay {} did not reproduce key {} in a fresh process", path, key)); }
                out_lines.push(format!("VIOLATION property={} replay={}", id, path));
                out_lines.push(format!("  oracle={} key={} runs={} first index={} seed={} events {}->{}", vo.v.oracle, key, count, i, seed, vo.orig_events, rf.trace.events.len()));
                out_lines.push(format!("  {}", vo.v.detail.chars().take(600).collect::<String>()));
            }
            None => { harness_errors.push(format!("violation {} without a trace", key)); }
        }
    }
    for (i, why, trace) in confirmed_lost.iter() {
        let key = "no-return".to_string();
        let kf = known.findings.iter().find(|f| f.property == id && f.key == key);
        // every claimed property says what a line evaluates to; an evaluation that never returns (or takes
        // the process down), confirmed alone in a fresh process, evaluates to nothing the statement allows
        if let Some(f) = kf { out_lines.push(format!("KNOWN-FINDING: property={} {}", id, f.what)); continue; }
        n_violations += 1;
        exit = 1;
        let path = format!("{}/replays/{}-noreturn-{}.json", verif_dir(), id, i);
        if let Some(t) = trace {
            // minimise the first few with child processes under the time limit
            let min = if n_violations <= 3 { shrink_no_return(t, hang_s, 14) } else { t.clone() };
            let rf = ReplayFile { property: id.clone(), key: key.clone(), oracle: "O-returns".into(), event: min.events.len().saturating_sub(1), detail: why.clone(), seed: mix(base, &id, *i), base_seed: base, index: *i, host_tz: t.host_tz.clone(), original_events: t.events.len(), trace: min };
            std::fs::write(&path, serde_json::to_string_pretty(&rf).unwrap()).unwrap();
        }
        out_lines.push(format!("VIOLATION property={} replay={}", id, path));
        out_lines.push(format!("  oracle=O-returns key=no-return index={} : evaluation did not return ({})", i, why));
    }

    if let Ok(path) = std::env::var("VERIF_DUMP_HASHES") {
        // per-index trace / observation hashes, for diffing executions against each other
        let mut out = String::new();
        for (i, (th, oh)) in agg.hashes.iter() { out.push_str(&format!("{} {:016x} {:016x}\n", i, th, oh)); }
        let _ = std::fs::write(path, out);
    }
    let wall = t_start.elapsed().as_secs_f64();
    // evidence
    let fault_kinds: BTreeMap<String, u64> = agg.counters.iter().filter(|(k, _)| is_fault_key(k)).map(|(k, v)| (k.clone(), *v)).collect();
    let probes: BTreeMap<String, u64> = agg.counters.iter().filter(|(k, _)| k.starts_with("probe.")).map(|(k, v)| (k.clone(), *v)).collect();
    let unjudged_why: BTreeMap<String, u64> = agg.counters.iter().filter(|(k, _)| k.starts_with("unjudged.")).map(|(k, v)| (k.clone(), *v)).collect();
    let mut samples = agg.samples.clone();
    samples.sort_by_key(|s| s["index"].as_u64().unwrap_or(0));
    let evidence = json!({
        "property_id": id,
        "tier": tier,
        "seed": base,
        "level": "exploration",
        "coverage": {
            "evaluations": agg.runs,
            "distinct_nontrivial": agg.nontrivial_hashes.len(),
            "rule": check.rule(),
            "samples": samples,
            "simulated_runs": agg.runs,
            "runs_per_hour": if wall > 0.0 { (agg.runs as f64 / wall * 3600.0) as u64 } else { 0 },
            "seeds": {"base": base, "first_index": 0, "last_index": total.saturating_sub(1), "derivation": "seed_i = mix(VERIF_SEED, property id, i)"},
            "events_executed": agg.events,
            "calculator_calls": agg.evaluations,
            "simulated_seconds_covered": agg.sim_span_s,
            "faults_fired": fault_kinds,
            "probes": probes,
            "unjudged_reasons": unjudged_why,
            "judged_steps": agg.judged,
            "unjudged_steps": agg.unjudged,
            "distinct_traces": agg.trace_hashes.len(),
            "distinct_interleavings": agg.inter_hashes.len(),
            "distinct_states": agg.states.len(),
            "clock_reads": agg.clock_reads,
            "host_zones": HOST_ZONES,
            "run_modes": agg.modes,
            "real_components": ["smartcalc (working tree of the repository, all modules)", "regex", "chrono (incl. Local / TZ rule parsing)", "serde_json"],
            "stubbed_components": ["CLOCK_REALTIME source (libc clock_gettime/gettimeofday/time overridden in the harness binary)", "host time zone database (TZ variable as POSIX rule strings, one per worker process)", "rule callbacks (harness RuleTrait implementations, decisions = hash of salt, rule, fields)", "log sink (no-op logger installed first)"],
            "known_findings_seen": known_seen,
            "determinism_recheck": {"re_executed": recheck_n, "mismatches": recheck_bad},
            "lost_runs_confirmed": confirmed_lost.len(),
            "exhaustive": false
        },
        "assumptions": [
            "x86_64 Linux/glibc: std's SystemTime::now binds to the harness's clock_gettime symbol (self-test at start-up of every check)",
            "the harness profile (opt-level 2, debug assertions and overflow checks on, panic=unwind) has the semantics of the crate's own dev/test profile",
            "seeded sampling: a clean batch is evidence, not proof"
        ],
        "wall_s": wall,
        "violations": n_violations
    });
    let ev_path = format!("{}/evidence/{}.json", verif_dir(), id);
    std::fs::write(&ev_path, serde_json::to_string_pretty(&evidence).unwrap()).unwrap();

    for l in out_lines.iter() { println!("{}", l); }
    println!("runs={} distinct_nontrivial={} judged={} unjudged={} calls={} clock_reads={} faults_fired={} wall={:.1}s", agg.runs, agg.nontrivial_hashes.len(), agg.judged, agg.unjudged, agg.evaluations, agg.clock_reads, fault_kinds.values().sum::<u64>(), wall);
    println!("faults: {}", fault_kinds.iter().map(|(k, v)| format!("{}={}", k, v)).collect::<Vec<_>>().join(" "));
    if stopped_early {
        println!("batch stopped early: {} runs did not come back (limit VERIF_MAX_LOST={}); {} of them re-run alone, {} confirmed", lost.len(), max_lost, lost.len().min(3), confirmed_lost.len());
        if confirmed_lost.is_empty() { harness_errors.push("runs were lost in the batch but none of the re-run ones was lost alone".into()); }
    } else if agg.runs + confirmed_lost.len() as u64 + harness_lost != total {
        harness_errors.push(format!("expected {} runs, got {} results and {} confirmed lost", total, agg.runs, confirmed_lost.len()));
    }
    if !harness_errors.is_empty() {
        for e in harness_errors.iter().take(20) { println!("HARNESS-ERROR: {}", e); }
        return 2;
    }
    if exit == 0 { println!("OK property={} held on everything explored ({} runs)", id, agg.runs); }
    exit
}

fn spawn_worker_env(id: &str, tier: &str, base: u64, total: u64, zone: u64, indices: &[u64], tx: &mpsc::Sender<Msg>, w: usize, no_shrink: bool) -> Child {
    if no_shrink { std::env::set_var("VERIF_NO_SHRINK", "1"); }
    let c = spawn_worker(id, tier, base, total, zone, indices, tx, w);
    if no_shrink { std::env::remove_var("VERIF_NO_SHRINK"); }
    c
}

enum SingleOutcome {
    Line(RunLine),
    Lost(String),
}

fn run_single(id: &str, tier: &str, base: u64, total: u64, zone: u64, i: u64, limit_s: u64) -> SingleOutcome {
    let (tx, rx) = mpsc::channel::<Msg>();
    let mut child = spawn_worker(id, tier, base, total, zone, &[i], &tx, 0);
    drop(tx);
    let deadline = Instant::now() + Duration::from_secs(limit_s);
    loop {
        match rx.recv_timeout(Duration::from_millis(200)) {
            Ok(Msg::Run { line, .. }) => { let _ = child.wait(); return SingleOutcome::Line(*line); }
            Ok(Msg::Eof { .. }) => {
                let st = child.wait().ok();
                return SingleOutcome::Lost(format!("process ended without a result ({})", st.map(|s| s.to_string()).unwrap_or_default()));
            }
            Ok(_) => {}
            Err(mpsc::RecvTimeoutError::Timeout) => {
                if Instant::now() > deadline {
                    let _ = child.kill();
                    let _ = child.wait();
                    return SingleOutcome::Lost(format!("no result within {} s", limit_s));
                }
            }
            Err(_) => { let _ = child.wait(); return SingleOutcome::Lost("channel closed".into()); }
        }
    }
}

/// Execute a trace in a child process (under the trace's TZ) with a wall-clock limit.
/// Some(true) = returned, Some(false) = killed at the limit, None = the child died.
fn exec_with_limit(trace: &Trace, limit_s: u64) -> Option<bool> {
    let dir = std::env::temp_dir().join(format!("sim-exec-{}-{:x}", std::process::id(), trace.hash()));
    let _ = std::fs::create_dir_all(&dir);
    let file = dir.join("trace.json");
    std::fs::write(&file, serde_json::to_string(trace).ok()?).ok()?;
    let exe = std::env::current_exe().ok()?;
    let mut child = Command::new(exe).args(["exec-trace", file.to_str()?]).env("TZ", &trace.host_tz).stdin(Stdio::null()).stdout(Stdio::null()).stderr(Stdio::null()).spawn().ok()?;
    let deadline = Instant::now() + Duration::from_secs(limit_s);
    let res = loop {
        match child.try_wait() {
            Ok(Some(st)) => break if st.success() { Some(true) } else { None },
            Ok(None) => {
                if Instant::now() > deadline { let _ = child.kill(); let _ = child.wait(); break Some(false); }
                std::thread::sleep(Duration::from_millis(50));
            }
            Err(_) => break None,
        }
    };
    let _ = std::fs::remove_dir_all(&dir);
    res
}

/// sim exec-trace <file with a Trace as JSON> : execute it once, exit 0
pub fn exec_trace_main(args: &[String]) -> i32 {
    let txt = match args.first().and_then(|p| std::fs::read_to_string(p).ok()) { Some(t) => t, None => return 2 };
    let trace: Trace = match serde_json::from_str(&txt) { Ok(t) => t, Err(_) => return 2 };
    let check = match checks::get(&trace.check) { Some(c) => c, None => return 2 };
    let env = Env::new();
    let _ = check.execute(&trace, &env);
    0
}

/// Minimise a trace that does not return, with child processes under a time limit: shortest
/// prefix that still does not return, then that prefix's last event alone (with the administrator
/// events before it), then halves of its text. At most `budget` child runs.
fn shrink_no_return(trace: &Trace, limit_s: u64, mut budget: u32) -> Trace {
    let mut hangs = |t: &Trace, budget: &mut u32| -> bool { if *budget == 0 { return false; } *budget -= 1; !matches!(exec_with_limit(t, limit_s), Some(true)) };
    let mut best = trace.clone();
    // shortest hanging prefix (binary search; a prefix of a hanging run hangs iff it contains the culprit)
    let (mut lo, mut hi) = (1usize, best.events.len());
    while lo < hi && budget > 0 {
        let mid = (lo + hi) / 2;
        let mut c = best.clone();
        c.events.truncate(mid);
        if hangs(&c, &mut budget) { hi = mid; } else { lo = mid + 1; }
    }
    best.events.truncate(hi);
    if best.events.len() > 1 {
        let last = best.events.len() - 1;
        let mut c = best.clone();
        c.events = best.events.iter().enumerate().filter(|(i, e)| *i == last || e.actor == crate::trace::ADMIN || matches!(e.op, crate::trace::Op::SessionNew { .. })).map(|(_, e)| e.clone()).collect();
        if c.events.len() < best.events.len() && hangs(&c, &mut budget) { best = c; }
    }
    // halves of the last text
    loop {
        let last = best.events.len() - 1;
        let n = match &best.events[last].op { crate::trace::Op::Execute { text, .. } | crate::trace::Op::SessionText { text } => text.lines.len(), _ => 0 };
        if n <= 1 || budget == 0 { break; }
        let mut progressed = false;
        for half in 0..2 {
            let mut c = best.clone();
            if let crate::trace::Op::Execute { text, .. } | crate::trace::Op::SessionText { text } = &mut c.events[last].op {
                let keep: Vec<usize> = if half == 0 { (0..n / 2).collect() } else { (n / 2..n).collect() };
                let lines: Vec<_> = keep.iter().map(|i| text.lines[*i].clone()).collect();
                text.crlf = vec![false; lines.len()];
                text.lines = lines;
                text.trailing_nl = false;
            }
            if hangs(&c, &mut budget) { best = c; progressed = true; break; }
        }
        if !progressed { break; }
    }
    best
}

fn dump_trace(id: &str, tier: &str, base: u64, i: u64, zone: usize) -> Option<Trace> {
    let exe = std::env::current_exe().ok()?;
    let o = Command::new(exe).args(["gen", id, tier, &base.to_string(), &i.to_string()]).env("TZ", HOST_ZONES[zone]).output().ok()?;
    serde_json::from_slice(&o.stdout).ok()
}

pub fn gen_main(args: &[String]) -> i32 {
    if args.len() < 4 { eprintln!("usage: sim gen ID tier base index"); return 2; }
    let check = match checks::get(&args[0]) { Some(c) => c, None => return 2 };
    let env = Env::new();
    let seed = mix(args[2].parse().unwrap(), &args[0], args[3].parse().unwrap());
    let t = check.generate(seed, &args[1], &env);
    println!("{}", serde_json::to_string(&t).unwrap());
    0
}

// ---------------------------------------------------------------------------
// self-test of the seams and of the harness's own calendar code
// ---------------------------------------------------------------------------

pub fn selftest_main() -> i32 {
    use crate::clock::{civil_from_days, days_from_civil, instant, ClockScript};
    use chrono::{Datelike, TimeZone};
    let mut bad = 0;
    // 1. the clock seam reaches std and chrono
    let t = instant(2031, 7, 9, 12, 34, 56);
    crate::clock::freeze(t);
    let now = chrono::Utc::now();
    if (now.year(), now.month(), now.day()) != (2031, 7, 9) { println!("selftest: chrono::Utc::now() does not see the simulated clock: {}", now); bad += 1; }
    let st = std::time::SystemTime::now().duration_since(std::time::UNIX_EPOCH).unwrap().as_secs() as i128;
    if st != t / crate::clock::NS { println!("selftest: SystemTime::now() does not see the simulated clock"); bad += 1; }
    // 2. monotonic clock is real
    let a = crate::clock::real_monotonic_s();
    std::thread::sleep(Duration::from_millis(5));
    if crate::clock::real_monotonic_s() <= a { println!("selftest: monotonic clock not advancing"); bad += 1; }
    // 3. scripted reads
    let (vals, log) = crate::clock::with_clock(&ClockScript::Cross { before: t, after: t + 86400 * crate::clock::NS, at_read: 1 }, false, || {
        (chrono::Utc::now().day(), chrono::Utc::now().day())
    });
    if vals != (9, 10) || log.values.len() != 2 { println!("selftest: Cross script gave {:?} with {} reads", vals, log.values.len()); bad += 1; }
    // 4. own calendar agrees with chrono on a sweep
    let mut d = -200_000i64;
    while d < 3_000_000 {
        let (y, m, dd) = civil_from_days(d);
        let c = chrono::NaiveDate::from_ymd_opt(y as i32, m, dd);
        match c {
            Some(c) => { if c.num_days_from_ce() as i64 - 719163 != d || days_from_civil(y, m, dd) != d { println!("selftest: calendar mismatch at day {}", d); bad += 1; break; } }
            None => { println!("selftest: chrono rejects {}-{}-{}", y, m, dd); bad += 1; break; }
        }
        d += 97;
    }
    // 5. the host zone of this process follows TZ, and the harness's DST rule agrees with chrono::Local
    let tz = std::env::var("TZ").unwrap_or_default();
    if let Some(h) = crate::gen::clocks::host_rule(&tz) {
        for y in [1999i64, 2026, 2031, 2400] {
            let ((gy, gm, gd), ga, _) = crate::gen::clocks::gap(y, &h);
            let nd = chrono::NaiveDate::from_ymd_opt(gy as i32, gm, gd).unwrap().and_hms_opt((ga / 3600) as u32, ((ga / 60) % 60) as u32 + 1, 0).unwrap();
            if !matches!(chrono::Local.from_local_datetime(&nd), chrono::LocalResult::None) { println!("selftest: {} is not in a DST gap of {:?} according to chrono", nd, tz); bad += 1; }
            let ((fy, fm, fd), fa, _) = crate::gen::clocks::fold(y, &h);
            let nd = chrono::NaiveDate::from_ymd_opt(fy as i32, fm, fd).unwrap().and_hms_opt((fa / 3600) as u32, ((fa / 60) % 60) as u32 + 1, 0).unwrap();
            if !matches!(chrono::Local.from_local_datetime(&nd), chrono::LocalResult::Ambiguous(_, _)) { println!("selftest: {} is not in a DST fold of {:?} according to chrono", nd, tz); bad += 1; }
        }
    }
    // 6. logger silence: building a calculator prints nothing (checked by the caller on stdout)
    let _c = smartcalc::SmartCalc::default();
    if bad == 0 { println!("selftest ok (TZ={:?})", tz); 0 } else { 2 }
}

#[allow(dead_code)]
pub fn check_ids() -> &'static [&'static str] { checks::ALL }

#[allow(dead_code)]
fn unused(_: &dyn Check) {}
