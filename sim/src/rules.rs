//! Caller-supplied rule callbacks, owned by the simulator.  Every decision
//! (accept / decline / unwind) is a pure function of (salt, rule id, field
//! values): independent of call order, so a replica that sees fewer calls
//! makes the same decisions.

use std::cell::RefCell;
use std::collections::BTreeMap;
use std::rc::Rc;

use smartcalc::{NumberType, RuleTrait, SmartCalcConfig, TokenType};

use crate::obs::{token_val, Val};
use crate::prng::fnv64;
use crate::trace::{ResultSpec, RuleSpec};

#[derive(Debug, Clone, PartialEq)]
pub struct CallRecord {
    pub rule_id: u32,
    pub fields: Vec<(String, Val)>,
    pub decision: Decision,
}

#[derive(Debug, Clone, Copy, PartialEq)]
pub enum Decision {
    Accept,
    Decline,
    Unwind,
}

pub type CallLog = Rc<RefCell<Vec<CallRecord>>>;

pub struct SimRule {
    pub spec: RuleSpec,
    pub salt: u64,
    pub log: CallLog,
    /// when false the unwind decision is taken as "decline" (used on replicas
    /// where an unwinding step is skipped)
    pub allow_unwind: bool,
}

pub fn fields_vals(fields: &BTreeMap<String, TokenType>) -> Vec<(String, Val)> {
    let mut v = Vec::new();
    for (k, t) in fields {
        let val = match t {
            TokenType::Text(txt) => Val::Other(format!("Text({})", txt.to_lowercase())),
            other => token_val(other),
        };
        v.push((k.clone(), val));
    }
    v
}

/// digest of field values (sorted by field name, as a BTreeMap iterates)
pub fn digest_vals(vals: &[(String, Val)]) -> u64 {
    let mut s = String::new();
    for (k, val) in vals { s.push_str(&format!("{}={:?};", k, val)); }
    fnv64(s.as_bytes())
}

pub fn fields_digest(fields: &BTreeMap<String, TokenType>) -> (Vec<(String, Val)>, u64) {
    let v = fields_vals(fields);
    let d = digest_vals(&v);
    (v, d)
}

pub fn decide(spec: &RuleSpec, salt: u64, digest: u64) -> Decision {
    let h = fnv64(format!("{}:{}:{}", salt, spec.id, digest).as_bytes());
    if spec.unwind_den > 0 && (h >> 32) % spec.unwind_den as u64 == 0 {
        return Decision::Unwind;
    }
    if spec.decline_den > 0 && (h & 0xffff_ffff) % (spec.decline_den as u64) < spec.decline_num as u64 {
        return Decision::Decline;
    }
    Decision::Accept
}

impl RuleTrait for SimRule {
    fn name(&self) -> String {
        self.spec.name.clone()
    }

    fn call(&self, config: &SmartCalcConfig, fields: &BTreeMap<String, TokenType>) -> Option<TokenType> {
        let (fvals, digest) = fields_digest(fields);
        let decision = decide(&self.spec, self.salt, digest);
        self.log.borrow_mut().push(CallRecord { rule_id: self.spec.id, fields: fvals, decision });
        match decision {
            Decision::Decline => return None,
            Decision::Unwind => {
                if self.allow_unwind {
                    panic!("SIMRULE-UNWIND rule {}", self.spec.id);
                }
                return None;
            }
            Decision::Accept => {}
        }
        match &self.spec.result {
            ResultSpec::Number(n) => Some(TokenType::Number(*n, NumberType::Decimal)),
            ResultSpec::NumberTimes { field, k } => match fields.get(field) {
                Some(TokenType::Number(n, _)) => Some(TokenType::Number(n * k, NumberType::Decimal)),
                _ => None,
            },
            ResultSpec::Money { amount, code } => config.get_currency(code.to_lowercase()).map(|c| TokenType::Money(*amount, c)),
            ResultSpec::Percent(p) => Some(TokenType::Percent(*p)),
            ResultSpec::DurationSecs(s) => Some(TokenType::Duration(chrono::Duration::seconds(*s))),
            ResultSpec::Echo { field } => fields.get(field).cloned(),
        }
    }
}

/// what the property says the rule's result is, given the fields it received
pub fn expected_result(spec: &ResultSpec, fields: &[(String, Val)]) -> Option<Val> {
    use crate::obs::F;
    match spec {
        ResultSpec::Number(n) => Some(Val::Num { v: F(*n), ty: "Decimal".into() }),
        ResultSpec::NumberTimes { field, k } => fields.iter().find(|(f, _)| f == field).and_then(|(_, v)| match v {
            Val::Num { v, .. } => Some(Val::Num { v: F(v.0 * k), ty: "Decimal".into() }),
            _ => None,
        }),
        ResultSpec::Money { amount, code } => Some(Val::Money { v: F(*amount), code: code.to_uppercase() }),
        ResultSpec::Percent(p) => Some(Val::Pct(F(*p))),
        ResultSpec::DurationSecs(s) => Some(Val::Dur { secs: *s, nanos: 0 }),
        ResultSpec::Echo { field } => fields.iter().find(|(f, _)| f == field).map(|(_, v)| v.clone()),
    }
}
