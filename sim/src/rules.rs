//! Caller-supplied rule callbacks, owned by the simulator.  Every decision
//! (accept / decline / unwind) is a pure function of (salt, rule id, field
//! values): independent of call order, so a replica that sees fewer calls
//! makes the same decisions.

use std::cell::RefCell;
use std::collections::BTreeMap;
use std::rc::Rc;

use smartcalc::{NumberType, RuleTrait, SmartCalcConfig, TokenType};

use crate::obs::{token_val, Val};
use crate::prng::fnv64;
use crate::trace::{ResultSpec, RuleSpec};

#[derive(Debug, Clone, PartialEq)]
pub struct CallRecord {
    pub rule_id: u32,
    pub fields: Vec<(String, Val)>,
    pub decision: Decision,
}

#[derive(Debug, Clone, Copy, PartialEq)]
pub enum Decision {
    Accept,
    Decline,
    Unwind,
}

pub type CallLog = Rc<RefCell<Vec<CallRecord>>>;

/// A step of another client that the simulator runs INSIDE a callback
/// invocation of the evaluation in progress (the only yield points a
/// synchronous evaluation has).
pub struct PendingInner {
    pub idx: usize,
    pub at_call: u32,
    pub lang: String,
    pub text: String,
    /// None: one-shot `execute(lang, text)`; Some: `execute_session` on that session (its text was set before the outer call started)
    pub session: Option<*const smartcalc::Session>,
    /// frozen instant the step sees
    pub t: i128,
}

#[derive(Default)]
pub struct NestState {
    pub calc: Option<*const smartcalc::SmartCalc>,
    pub depth: u32,
    pub calls: u32,
    pub pending: Vec<PendingInner>,
    /// (step index, callback invocation it ran in, observation, clock reads it made)
    pub done: Vec<(usize, u32, crate::obs::CallObs, u32)>,
}

/// Shared between a world and the callbacks registered on its calculator.
pub type NestCtl = Rc<RefCell<NestState>>;

/// Called at the start of every callback invocation of a world's calculator.
fn yield_point(ctl: &NestCtl) {
    let (calc, due): (*const smartcalc::SmartCalc, Vec<PendingInner>) = {
        let mut st = ctl.borrow_mut();
        let calc = match st.calc { Some(c) if st.depth == 0 => c, _ => return };
        st.calls += 1;
        let calls = st.calls;
        let mut due = Vec::new();
        let mut rest = Vec::new();
        for p in st.pending.drain(..) { if p.at_call == calls { due.push(p); } else { rest.push(p); } }
        st.pending = rest;
        if due.is_empty() { return; }
        st.depth = 1;
        (calc, due)
    };
    let calls = ctl.borrow().calls;
    for p in due {
        // SAFETY: the pointers were taken from live shared borrows that outlive the outer call in
        // progress (World::run_nested); evaluation takes `&self` / `&Session` only.
        let calc: &smartcalc::SmartCalc = unsafe { &*calc };
        let (obs, reads) = crate::clock::with_nested_frozen(p.t, || crate::obs::observe_call(|| match p.session {
            None => crate::project_result!(calc.execute(&p.lang[..], &p.text[..])),
            Some(s) => { let s: &smartcalc::Session = unsafe { &*s }; crate::project_result!(calc.execute_session(s)) }
        }));
        ctl.borrow_mut().done.push((p.idx, calls, obs, reads));
    }
    ctl.borrow_mut().depth = 0;
}

pub struct SimRule {
    pub spec: RuleSpec,
    pub salt: u64,
    pub log: CallLog,
    /// when false the unwind decision is taken as "decline" (used on replicas
    /// where an unwinding step is skipped)
    pub allow_unwind: bool,
    /// yield-point control of the world this rule is registered in
    pub nest: NestCtl,
}

pub fn fields_vals(fields: &BTreeMap<String, TokenType>) -> Vec<(String, Val)> {
    let mut v = Vec::new();
    for (k, t) in fields {
        let val = match t {
            TokenType::Text(txt) => Val::Other(format!("Text({})", txt.to_lowercase())),
            other => token_val(other),
        };
        v.push((k.clone(), val));
    }
    v
}

/// digest of field values (sorted by field name, as a BTreeMap iterates)
pub fn digest_vals(vals: &[(String, Val)]) -> u64 {
    let mut s = String::new();
    for (k, val) in vals { s.push_str(&format!("{}={:?};", k, val)); }
    fnv64(s.as_bytes())
}

pub fn fields_digest(fields: &BTreeMap<String, TokenType>) -> (Vec<(String, Val)>, u64) {
    let v = fields_vals(fields);
    let d = digest_vals(&v);
    (v, d)
}

pub fn decide(spec: &RuleSpec, salt: u64, digest: u64) -> Decision {
    let h = fnv64(format!("{}:{}:{}", salt, spec.id, digest).as_bytes());
    if spec.unwind_den > 0 && (h >> 32) % spec.unwind_den as u64 == 0 {
        return Decision::Unwind;
    }
    if spec.decline_den > 0 && (h & 0xffff_ffff) % (spec.decline_den as u64) < spec.decline_num as u64 {
        return Decision::Decline;
    }
    Decision::Accept
}

impl RuleTrait for SimRule {
    fn name(&self) -> String {
        self.spec.name.clone()
    }

    fn call(&self, config: &SmartCalcConfig, fields: &BTreeMap<String, TokenType>) -> Option<TokenType> {
        yield_point(&self.nest);
        let (fvals, digest) = fields_digest(fields);
        let decision = decide(&self.spec, self.salt, digest);
        self.log.borrow_mut().push(CallRecord { rule_id: self.spec.id, fields: fvals, decision });
        match decision {
            Decision::Decline => return None,
            Decision::Unwind => {
                if self.allow_unwind {
                    panic!("SIMRULE-UNWIND rule {}", self.spec.id);
                }
                return None;
            }
            Decision::Accept => {}
        }
        match &self.spec.result {
            ResultSpec::Number(n) => Some(TokenType::Number(*n, NumberType::Decimal)),
            ResultSpec::NumberTimes { field, k } => match fields.get(field) {
                Some(TokenType::Number(n, _)) => Some(TokenType::Number(n * k, NumberType::Decimal)),
                _ => None,
            },
            ResultSpec::Money { amount, code } => config.get_currency(code.to_lowercase()).map(|c| TokenType::Money(*amount, c)),
            ResultSpec::Percent(p) => Some(TokenType::Percent(*p)),
            ResultSpec::DurationSecs(s) => Some(TokenType::Duration(chrono::Duration::seconds(*s))),
            ResultSpec::Echo { field } => fields.get(field).cloned(),
        }
    }
}

/// what the property says the rule's result is, given the fields it received
pub fn expected_result(spec: &ResultSpec, fields: &[(String, Val)]) -> Option<Val> {
    use crate::obs::F;
    match spec {
        ResultSpec::Number(n) => Some(Val::Num { v: F(*n), ty: "Decimal".into() }),
        ResultSpec::NumberTimes { field, k } => fields.iter().find(|(f, _)| f == field).and_then(|(_, v)| match v {
            Val::Num { v, .. } => Some(Val::Num { v: F(v.0 * k), ty: "Decimal".into() }),
            _ => None,
        }),
        ResultSpec::Money { amount, code } => Some(Val::Money { v: F(*amount), code: code.to_uppercase() }),
        ResultSpec::Percent(p) => Some(Val::Pct(F(*p))),
        ResultSpec::DurationSecs(s) => Some(Val::Dur { secs: *s, nanos: 0 }),
        ResultSpec::Echo { field } => fields.iter().find(|(f, _)| f == field).map(|(_, v)| v.clone()),
    }
}
