//! Observations: what a caller can see of one public API call, projected into
//! plain comparable data.  Only public API of smartcalc is used.

use std::cell::RefCell;
use std::ops::Deref;
use std::panic::{catch_unwind, AssertUnwindSafe};

use chrono::Datelike;
use serde::{Deserialize, Serialize};
use smartcalc::{SmartCalcAstType, TokenType};

/// f64 compared and hashed by bit pattern (so NaN == NaN, 0.0 != -0.0)
#[derive(Clone, Copy, Serialize, Deserialize)]
pub struct F(pub f64);
impl PartialEq for F {
    fn eq(&self, o: &F) -> bool { self.0.to_bits() == o.0.to_bits() }
}
impl std::fmt::Debug for F {
    fn fmt(&self, f: &mut std::fmt::Formatter<'_>) -> std::fmt::Result { write!(f, "{:?}", self.0) }
}

#[derive(Clone, PartialEq, Debug, Serialize, Deserialize)]
pub enum Val {
    Num { v: F, ty: String },
    Pct(F),
    Money { v: F, code: String },
    Dur { secs: i64, nanos: i32 },
    Time { utc: i64, nanos: u32, zone: String, off: i32 },
    Date { days: i64, zone: String, off: i32 },
    DateTime { utc: i64, nanos: u32, zone: String, off: i32 },
    Unit { v: F, group: String, index: usize, unit: String },
    /// evaluation produced something that is not a value item (e.g. a bare month)
    Other(String),
}

#[derive(Clone, PartialEq, Debug, Serialize, Deserialize)]
pub enum Slot {
    Empty,
    Err(String),
    Ok { out: String, val: Val },
}

impl Slot {
    pub fn is_ok(&self) -> bool { matches!(self, Slot::Ok { .. }) }
    pub fn is_err(&self) -> bool { matches!(self, Slot::Err(_)) }
    pub fn out(&self) -> Option<&str> { if let Slot::Ok { out, .. } = self { Some(out) } else { None } }
    pub fn val(&self) -> Option<&Val> { if let Slot::Ok { val, .. } = self { Some(val) } else { None } }
    pub fn short(&self) -> String {
        match self {
            Slot::Empty => "<empty>".into(),
            Slot::Err(e) => format!("Err({})", e),
            Slot::Ok { out, val } => format!("Ok({:?} = {:?})", out, val),
        }
    }
}

#[derive(Clone, PartialEq, Debug, Serialize, Deserialize)]
pub struct LineObs {
    pub slot: Slot,
    /// (start, end, kind) of the highlight tokens
    pub ui: Vec<(usize, usize, String)>,
    /// type names of the calculated tokens that are still active
    pub toks: Vec<String>,
}

#[derive(Clone, PartialEq, Debug, Serialize, Deserialize)]
pub struct PanicInfo {
    pub msg: String,
    pub loc: String,
    /// first smartcalc function on the stack
    pub func: String,
}

impl PanicInfo {
    /// class of the message: digits and quoted payloads removed, so that known
    /// findings are keyed by what failed and where, not by the failing value
    pub fn msg_class(&self) -> String {
        let mut out = String::new();
        let mut last_hash = false;
        for c in self.msg.chars().take(120) {
            if c.is_ascii_digit() {
                if !last_hash { out.push('#'); }
                last_hash = true;
            } else if (c == '+' || c == '-') && last_hash {
                // sign inside a printed offset/range: not part of the class
                out.push('~');
                last_hash = false;
            } else {
                out.push(c);
                last_hash = false;
            }
        }
        out
    }
    pub fn key(&self) -> String {
        format!("panic@{}|{}", self.func, self.msg_class())
    }
}

#[derive(Clone, PartialEq, Debug, Serialize, Deserialize)]
pub enum CallObs {
    Returned { status: bool, lines: Vec<LineObs> },
    Unwound(PanicInfo),
}

impl CallObs {
    pub fn lines(&self) -> Option<&Vec<LineObs>> {
        match self { CallObs::Returned { lines, .. } => Some(lines), _ => None }
    }
    pub fn short(&self) -> String {
        match self {
            CallObs::Returned { status, lines } => format!("status={} [{}]", status, lines.iter().map(|l| l.slot.short()).collect::<Vec<_>>().join(" | ")),
            CallObs::Unwound(p) => format!("PANIC {} at {} in {}", p.msg, p.loc, p.func),
        }
    }
}

pub fn token_val(t: &TokenType) -> Val {
    match t {
        TokenType::Number(n, ty) => Val::Num { v: F(*n), ty: format!("{:?}", ty) },
        TokenType::Percent(p) => Val::Pct(F(*p)),
        TokenType::Money(v, cur) => Val::Money { v: F(*v), code: cur.code.clone() },
        TokenType::Duration(d) => {
            let secs = d.num_seconds();
            let rest = *d - chrono::Duration::seconds(secs);
            Val::Dur { secs, nanos: rest.num_nanoseconds().unwrap_or(0) as i32 }
        }
        TokenType::Time(t, tz) => Val::Time { utc: t.timestamp(), nanos: t.timestamp_subsec_nanos(), zone: tz.name.clone(), off: tz.offset },
        TokenType::Date(d, tz) => Val::Date { days: d.num_days_from_ce() as i64 - 719163, zone: tz.name.clone(), off: tz.offset },
        TokenType::DateTime(t, tz) => Val::DateTime { utc: t.timestamp(), nanos: t.timestamp_subsec_nanos(), zone: tz.name.clone(), off: tz.offset },
        TokenType::DynamicType(v, dt) => Val::Unit { v: F(*v), group: dt.group_name.clone(), index: dt.index, unit: dt.names.first().cloned().unwrap_or_default() },
        other => Val::Other(format!("{:?}", other.type_name())),
    }
}

pub fn ast_val(ast: &SmartCalcAstType) -> Val {
    match ast {
        SmartCalcAstType::Item(item) => token_val(&item.as_token_type()),
        SmartCalcAstType::None => Val::Other("None".into()),
        SmartCalcAstType::Month(m) => Val::Other(format!("Month({})", m)),
        other => Val::Other(other.type_name()),
    }
}

/// Evaluate `f` (which performs one public smartcalc call and returns its
/// result) and project what the caller sees.
pub fn observe_call(f: impl FnOnce() -> (bool, Vec<LineObs>)) -> CallObs {
    LAST_PANIC.with(|p| *p.borrow_mut() = None);
    let r = guarded(|| catch_unwind(AssertUnwindSafe(f)));
    match r {
        Ok((status, lines)) => CallObs::Returned { status, lines },
        Err(_) => {
            let info = LAST_PANIC.with(|p| p.borrow_mut().take());
            CallObs::Unwound(info.unwrap_or(PanicInfo { msg: "<no hook info>".into(), loc: "?".into(), func: "?".into() }))
        }
    }
}

/// run `f` with panics attributed to the code under test (silent, recorded);
/// a panic outside such a region is a harness bug and is printed
pub fn guarded<R>(f: impl FnOnce() -> R) -> R {
    let prev = IN_GUARD.with(|g| g.replace(true));
    let r = f();
    IN_GUARD.with(|g| g.set(prev));
    r
}

pub fn take_last_panic() -> Option<PanicInfo> {
    LAST_PANIC.with(|p| p.borrow_mut().take())
}

#[macro_export]
macro_rules! project_result {
    ($res:expr) => {{
        let res = $res;
        let mut lines = Vec::with_capacity(res.lines.len());
        for l in res.lines.iter() {
            lines.push(match l {
                None => $crate::obs::LineObs { slot: $crate::obs::Slot::Empty, ui: vec![], toks: vec![] },
                Some(el) => {
                    let slot = match &el.result {
                        Ok(r) => $crate::obs::Slot::Ok { out: r.output.clone(), val: $crate::obs::ast_val(std::ops::Deref::deref(&r.ast)) },
                        Err(e) => $crate::obs::Slot::Err(e.clone()),
                    };
                    let ui = el.ui_tokens.iter().map(|t| (t.start, t.end, format!("{:?}", t.ui_type))).collect();
                    let toks = el.raw_tokens.iter().map(|t| t.type_name()).collect();
                    $crate::obs::LineObs { slot, ui, toks }
                }
            });
        }
        (res.status, lines)
    }};
}

thread_local! {
    static LAST_PANIC: RefCell<Option<PanicInfo>> = const { RefCell::new(None) };
    static IN_GUARD: std::cell::Cell<bool> = const { std::cell::Cell::new(false) };
}

fn smartcalc_frame_from_backtrace() -> String {
    let bt = std::backtrace::Backtrace::force_capture().to_string();
    for line in bt.lines() {
        let l = line.trim();
        if let Some(pos) = l.find("smartcalc::") {
            // skip trait-impl frames of the form "<smartcalc::... as ...>::..."? keep them: they name the method
            let sym = &l[pos..];
            let sym = sym.trim_end_matches('>');
            return strip_hash(sym).to_string();
        }
    }
    "<none>".to_string()
}

fn strip_hash(sym: &str) -> &str {
    match sym.rfind("::h") {
        Some(p) if sym.len() - p == 19 && sym[p + 3..].chars().all(|c| c.is_ascii_hexdigit()) => &sym[..p],
        _ => sym,
    }
}

/// Install the panic hook: silent, records message, location and the first
/// smartcalc frame (resolved once per distinct location+message class).
pub fn install_panic_hook() {
    std::panic::set_hook(Box::new(|info| {
        let msg = if let Some(s) = info.payload().downcast_ref::<&str>() {
            s.to_string()
        } else if let Some(s) = info.payload().downcast_ref::<String>() {
            s.clone()
        } else {
            "<non-string panic payload>".to_string()
        };
        let loc = info.location().map(|l| {
            // keep the path from "src/" or the crate directory on, not the absolute prefix
            let f = l.file();
            let short = match f.find("/registry/src/") {
                Some(p) => f[p + 14..].splitn(2, '/').nth(1).unwrap_or(f).to_string(),
                None => match f.find("/src/") { Some(p) => f[p + 1..].to_string(), None => f.to_string() },
            };
            format!("{}:{}", short, l.line())
        }).unwrap_or_else(|| "?".into());
        if !IN_GUARD.with(|g| g.get()) {
            eprintln!("harness panic (outside the code under test): {} at {}", msg, loc);
            eprintln!("{}", std::backtrace::Backtrace::force_capture());
        }
        let mut pi = PanicInfo { msg, loc: loc.clone(), func: String::new() };
        pi.func = smartcalc_frame_from_backtrace();
        LAST_PANIC.with(|p| *p.borrow_mut() = Some(pi));
    }));
}

/// Silence smartcalc's libc logger: install a no-op logger before the first
/// calculator is built, so that its own `set_logger` fails and it never raises
/// the max level.
pub fn install_null_logger() {
    struct Null;
    impl log::Log for Null {
        fn enabled(&self, _: &log::Metadata) -> bool { false }
        fn log(&self, _: &log::Record) {}
        fn flush(&self) {}
    }
    static NULL: Null = Null;
    let _ = log::set_logger(&NULL);
    log::set_max_level(log::LevelFilter::Off);
}

#[allow(dead_code)]
pub fn deref_ast(r: &std::rc::Rc<SmartCalcAstType>) -> &SmartCalcAstType { r.deref() }
