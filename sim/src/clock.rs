//! The clock seam.
//!
//! smartcalc reads the wall clock through `chrono::Utc::now()/today()`, which
//! ends in `std::time::SystemTime::now()`, which on Linux calls the libc symbol
//! `clock_gettime(CLOCK_REALTIME, ..)`.  This binary defines that symbol
//! itself, so the statically linked std binds to it instead of glibc's.  While
//! a simulation is active on the calling thread, `CLOCK_REALTIME` is served
//! from a scripted simulated clock; every other clock id (and every other
//! thread) is forwarded to the kernel with a raw syscall, so the harness's own
//! timing (`Instant`, watchdog) keeps real monotonic time.
//!
//! Nothing in /repo is changed for this.

use std::cell::{Cell, RefCell};

use serde::{Deserialize, Serialize};

pub const NS: i128 = 1_000_000_000;

/// i128 instants are written as decimal strings (JSON numbers stop at 64 bit)
pub mod i128s {
    use serde::{Deserialize, Deserializer, Serializer};
    pub fn serialize<S: Serializer>(v: &i128, s: S) -> Result<S::Ok, S::Error> { s.serialize_str(&v.to_string()) }
    pub fn deserialize<'de, D: Deserializer<'de>>(d: D) -> Result<i128, D::Error> {
        let s = String::deserialize(d)?;
        s.parse::<i128>().map_err(serde::de::Error::custom)
    }
}

/// What the clock does during one event (one public API call).
/// All instants are nanoseconds since the Unix epoch (UTC).
#[derive(Debug, Clone, PartialEq, Serialize, Deserialize)]
pub enum ClockScript {
    /// every read returns `t`
    Frozen { #[serde(with = "i128s")] t: i128 },
    /// read i returns `start + i*step`
    Tick { #[serde(with = "i128s")] start: i128, #[serde(with = "i128s")] step: i128 },
    /// reads with index < at_read return `before`, the others `after`
    Cross { #[serde(with = "i128s")] before: i128, #[serde(with = "i128s")] after: i128, at_read: u32 },
    /// like Frozen{start} but read `at_read` and later return `start - delta`
    BackStep { #[serde(with = "i128s")] start: i128, #[serde(with = "i128s")] delta: i128, at_read: u32 },
    /// read `at_read` returns a pre-epoch instant (chrono panics on it): the
    /// library-level analogue of a crash at that point of the evaluation.
    Fail { #[serde(with = "i128s")] t: i128, at_read: u32 },
}

impl ClockScript {
    pub fn value(&self, read: u32) -> i128 {
        match *self {
            ClockScript::Frozen { t } => t,
            ClockScript::Tick { start, step } => start + step * read as i128,
            ClockScript::Cross { before, after, at_read } => if read < at_read { before } else { after },
            ClockScript::BackStep { start, delta, at_read } => if read < at_read { start } else { start - delta },
            ClockScript::Fail { t, at_read } => if read == at_read { -5 * NS } else { t },
        }
    }
    /// the instant the event "starts" at (used for ordering and for frozen re-evaluation)
    pub fn base(&self) -> i128 {
        match *self {
            ClockScript::Frozen { t } => t,
            ClockScript::Tick { start, .. } => start,
            ClockScript::Cross { before, .. } => before,
            ClockScript::BackStep { start, .. } => start,
            ClockScript::Fail { t, .. } => t,
        }
    }
    pub fn is_frozen(&self) -> bool {
        matches!(self, ClockScript::Frozen { .. })
    }
    pub fn kind(&self) -> &'static str {
        match self {
            ClockScript::Frozen { .. } => "frozen",
            ClockScript::Tick { .. } => "tick_in_op",
            ClockScript::Cross { .. } => "cross_in_op",
            ClockScript::BackStep { .. } => "backstep_in_op",
            ClockScript::Fail { .. } => "source_failure",
        }
    }
}

struct Active {
    script: ClockScript,
    reads: u32,
    values: Vec<i128>,
    sites: Option<Vec<String>>,
}

thread_local! {
    static ACTIVE: RefCell<Option<Active>> = const { RefCell::new(None) };
    static IN_HOOK: Cell<bool> = const { Cell::new(false) };
    static TOTAL_READS: Cell<u64> = const { Cell::new(0) };
}

/// Result of running a closure under a clock script.
pub struct ClockLog {
    pub values: Vec<i128>,
    /// smartcalc function that performed each read (only in explain mode)
    pub sites: Option<Vec<String>>,
}

impl ClockLog {
    pub fn distinct_values(&self) -> Vec<i128> {
        let mut v = self.values.clone();
        v.sort();
        v.dedup();
        v
    }
}

/// Run `f` with CLOCK_REALTIME scripted on this thread.
pub fn with_clock<R>(script: &ClockScript, explain: bool, f: impl FnOnce() -> R) -> (R, ClockLog) {
    ACTIVE.with(|a| {
        *a.borrow_mut() = Some(Active { script: script.clone(), reads: 0, values: Vec::new(), sites: if explain { Some(Vec::new()) } else { None } });
    });
    let r = f();
    let log = ACTIVE.with(|a| {
        let mut b = a.borrow_mut();
        let act = b.as_mut().unwrap();
        let log = ClockLog { values: std::mem::take(&mut act.values), sites: act.sites.take() };
        // After the event the simulated clock stays frozen at the base instant.
        act.script = ClockScript::Frozen { t: act.script.base() };
        act.reads = 0;
        log
    });
    (r, log)
}

/// Run `f` under its own frozen instant while an outer `with_clock` is in
/// progress (a nested evaluation started from a rule callback): the outer
/// script, its read counter and its log are put aside and restored afterwards.
pub fn with_nested_frozen<R>(t: i128, f: impl FnOnce() -> R) -> (R, u32) {
    let saved = ACTIVE.with(|a| a.borrow_mut().take());
    let explain = saved.as_ref().map(|s| s.sites.is_some()).unwrap_or(false);
    ACTIVE.with(|a| *a.borrow_mut() = Some(Active { script: ClockScript::Frozen { t }, reads: 0, values: Vec::new(), sites: if explain { Some(Vec::new()) } else { None } }));
    let r = f();
    let reads = ACTIVE.with(|a| a.borrow().as_ref().map(|x| x.reads).unwrap_or(0));
    ACTIVE.with(|a| *a.borrow_mut() = saved);
    (r, reads)
}

/// Take whatever reads accumulated (used after a caught unwind, where
/// `with_clock` did not get to return its log).
pub fn drain_after_unwind() -> ClockLog {
    ACTIVE.with(|a| {
        let mut b = a.borrow_mut();
        match b.as_mut() {
            Some(act) => {
                let log = ClockLog { values: std::mem::take(&mut act.values), sites: act.sites.take() };
                act.script = ClockScript::Frozen { t: act.script.base() };
                act.reads = 0;
                log
            }
            None => ClockLog { values: vec![], sites: None },
        }
    })
}

/// Freeze the simulated clock of this thread at `t` (used outside events, e.g.
/// while building calculators, so that no code path ever observes real time).
pub fn freeze(t: i128) {
    ACTIVE.with(|a| {
        *a.borrow_mut() = Some(Active { script: ClockScript::Frozen { t }, reads: 0, values: Vec::new(), sites: None });
    });
}

pub fn deactivate() {
    ACTIVE.with(|a| *a.borrow_mut() = None);
}

pub fn total_reads() -> u64 {
    TOTAL_READS.with(|c| c.get())
}

fn first_smartcalc_frame() -> String {
    let bt = std::backtrace::Backtrace::force_capture().to_string();
    // frames look like "  12: smartcalc::tokinizer::regex_tokinizer::text::text_regex_parser"
    for line in bt.lines() {
        let l = line.trim();
        if let Some(pos) = l.find("smartcalc::") {
            let sym = &l[pos..];
            // strip trailing hash
            let sym = match sym.rfind("::h") { Some(p) if sym.len() - p == 19 => &sym[..p], _ => sym };
            return sym.to_string();
        }
    }
    "<unknown>".to_string()
}

fn sim_read() -> Option<i128> {
    // try_with: during thread teardown TLS may be gone -> real clock
    let in_hook = IN_HOOK.try_with(|h| h.replace(true)).ok()?;
    if in_hook {
        // re-entrant call from inside the hook itself (backtrace machinery): real clock
        return None;
    }
    let r = ACTIVE.try_with(|a| {
        let mut b = match a.try_borrow_mut() { Ok(b) => b, Err(_) => return None };
        let act = b.as_mut()?;
        let v = act.script.value(act.reads);
        act.reads += 1;
        if act.values.len() < 4096 { act.values.push(v); }
        if act.sites.is_some() {
            let s = first_smartcalc_frame();
            act.sites.as_mut().unwrap().push(s);
        }
        Some(v)
    }).ok().flatten();
    if r.is_some() { let _ = TOTAL_READS.try_with(|c| c.set(c.get() + 1)); }
    let _ = IN_HOOK.try_with(|h| h.set(false));
    r
}

unsafe fn real_clock_gettime(clk: libc::clockid_t, tp: *mut libc::timespec) -> libc::c_int {
    let r = libc::syscall(libc::SYS_clock_gettime, clk as libc::c_long, tp);
    if r < 0 { -1 } else { 0 }
}

#[no_mangle]
pub unsafe extern "C" fn clock_gettime(clk: libc::clockid_t, tp: *mut libc::timespec) -> libc::c_int {
    if clk == libc::CLOCK_REALTIME && !tp.is_null() {
        if let Some(v) = sim_read() {
            let secs = v.div_euclid(NS);
            let nsec = v.rem_euclid(NS);
            (*tp).tv_sec = secs as libc::time_t;
            (*tp).tv_nsec = nsec as libc::c_long;
            return 0;
        }
    }
    real_clock_gettime(clk, tp)
}

#[no_mangle]
pub unsafe extern "C" fn gettimeofday(tv: *mut libc::timeval, _tz: *mut libc::c_void) -> libc::c_int {
    if tv.is_null() { return 0; }
    let mut ts = libc::timespec { tv_sec: 0, tv_nsec: 0 };
    let r = clock_gettime(libc::CLOCK_REALTIME, &mut ts);
    (*tv).tv_sec = ts.tv_sec;
    (*tv).tv_usec = (ts.tv_nsec / 1000) as libc::suseconds_t;
    r
}

#[no_mangle]
pub unsafe extern "C" fn time(t: *mut libc::time_t) -> libc::time_t {
    let mut ts = libc::timespec { tv_sec: 0, tv_nsec: 0 };
    clock_gettime(libc::CLOCK_REALTIME, &mut ts);
    if !t.is_null() { *t = ts.tv_sec; }
    ts.tv_sec
}

/// Real monotonic seconds (for wall_s / watchdog only; never reaches smartcalc).
pub fn real_monotonic_s() -> f64 {
    let mut ts = libc::timespec { tv_sec: 0, tv_nsec: 0 };
    unsafe { real_clock_gettime(libc::CLOCK_MONOTONIC, &mut ts); }
    ts.tv_sec as f64 + ts.tv_nsec as f64 * 1e-9
}

// ---------------------------------------------------------------------------
// Civil calendar helpers (own implementation; cross-checked against chrono in
// the start-up self-test).  Proleptic Gregorian.
// ---------------------------------------------------------------------------

pub fn days_from_civil(y: i64, m: u32, d: u32) -> i64 {
    let y = if m <= 2 { y - 1 } else { y };
    let era = if y >= 0 { y } else { y - 399 } / 400;
    let yoe = y - era * 400;
    let mp = (m as i64 + 9) % 12;
    let doy = (153 * mp + 2) / 5 + d as i64 - 1;
    let doe = yoe * 365 + yoe / 4 - yoe / 100 + doy;
    era * 146097 + doe - 719468
}

pub fn civil_from_days(z: i64) -> (i64, u32, u32) {
    let z = z + 719468;
    let era = if z >= 0 { z } else { z - 146096 } / 146097;
    let doe = z - era * 146097;
    let yoe = (doe - doe / 1460 + doe / 36524 - doe / 146096) / 365;
    let y = yoe + era * 400;
    let doy = doe - (365 * yoe + yoe / 4 - yoe / 100);
    let mp = (5 * doy + 2) / 153;
    let d = (doy - (153 * mp + 2) / 5 + 1) as u32;
    let m = if mp < 10 { mp + 3 } else { mp - 9 } as u32;
    (if m <= 2 { y + 1 } else { y }, m, d)
}

pub fn is_leap(y: i64) -> bool {
    (y % 4 == 0 && y % 100 != 0) || y % 400 == 0
}

pub fn days_in_month(y: i64, m: u32) -> u32 {
    match m {
        1 | 3 | 5 | 7 | 8 | 10 | 12 => 31,
        4 | 6 | 9 | 11 => 30,
        _ => if is_leap(y) { 29 } else { 28 },
    }
}

/// instant (ns since epoch) of civil y-m-d hh:mm:ss UTC
pub fn instant(y: i64, m: u32, d: u32, hh: u32, mm: u32, ss: u32) -> i128 {
    (days_from_civil(y, m, d) as i128 * 86400 + hh as i128 * 3600 + mm as i128 * 60 + ss as i128) * NS
}

/// civil UTC date of an instant
pub fn utc_date(t: i128) -> (i64, u32, u32) {
    civil_from_days(t.div_euclid(86400 * NS) as i64)
}

pub fn utc_days(t: i128) -> i64 {
    t.div_euclid(86400 * NS) as i64
}

pub fn fmt_instant(t: i128) -> String {
    let (y, m, d) = utc_date(t);
    let s = t.rem_euclid(86400 * NS);
    let secs = (s / NS) as i64;
    let ns = (s % NS) as i64;
    format!("{:04}-{:02}-{:02}T{:02}:{:02}:{:02}.{:09}Z", y, m, d, secs / 3600, (secs / 60) % 60, secs % 60, ns)
}
