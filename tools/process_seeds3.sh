#!/bin/bash
# tools/process_seeds3.sh <ID> [checks] : verify and run the checks against the third-campaign
# sub-agent changes m8..m11 of property <ID> (delivered under /tmp/s3out/<ID>/m<k>)
ID="$1"; CHECKS="${2:-$ID}"
mkdir -p /tmp/seedres3
for k in 8 9 10 11; do
  D=/tmp/s3out/$ID/m$k
  [ -f "$D/patch.diff" ] || { echo "$ID-m$k missing"; continue; }
  /verif/tools/verify_seed.sh $ID-m$k $D
  SAVE=/tmp/seedres3 WORKERS=${WORKERS:-8} /verif/tools/mutant_run.sh $ID-m$k $D/patch.diff $CHECKS ${RUNS:-}
done 2>&1 | tee /tmp/seedres3/$ID.txt
