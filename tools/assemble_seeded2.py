#!/usr/bin/env python3
"""Writes seeded/<ID>-m<k>/meta.json for the changes of campaigns 2 (m4..m7), 3 (m8..m11) and 4 (m12..m15) and rewrites
seeded/RESULTS.md for ALL stored changes.

Inputs:
  tools/seed_summaries.json, tools/seed_summaries2.json   what each change is / needs
  seeded/campaign2_raw_results.txt, seeded/campaign3_raw_results.txt, seeded/campaign4_raw_results.txt
        lines of tools/verify_seed.sh and tools/mutant_run.sh as the campaigns went along (harness as it was
        when each change arrived, and re-runs after strengthening)
  seeded/final_results.txt
        one mutant_run line per (change, check) from the final re-run of every stored change against the
        harness as committed (tools/final_campaign.sh)
"""
import json, os, re, glob

OUT = "/verif/seeded"
SUM = {}
for f in ("/verif/tools/seed_summaries.json", "/verif/tools/seed_summaries2.json", "/verif/tools/seed_summaries3.json"):
    if not os.path.exists(f):
        continue
    SUM.update(json.load(open(f)))

def parse(path):
    """name -> {"verify": line or None, "runs": [(check, exit, nviol, keys)] in file order}"""
    res = {}
    if not os.path.exists(path):
        return res
    for l in open(path, errors="replace"):
        l = l.rstrip("\n")
        m = re.match(r"(C\d\d-m\d+) (.*)", l)
        if not m:
            continue
        name, rest = m.group(1), m.group(2)
        e = res.setdefault(name, {"verify": None, "runs": []})
        if rest.startswith("suite="):
            e["verify"] = rest
            continue
        m2 = re.match(r"(C\d\d) exit=(\d+) (\d+) violations; ?(.*)", rest)
        if m2:
            keys = re.findall(r"key=(.*?) runs=(\d+)", m2.group(4))
            if not keys and "key=no-return" in m2.group(4):
                keys = [("no-return", "1+")]
            e["runs"].append((m2.group(1), int(m2.group(2)), int(m2.group(3)), [f"{a} ({b} runs)" for a, b in keys]))
    return res

raw = {}
for f in ("campaign2_raw_results.txt", "campaign3_raw_results.txt", "campaign4_raw_results.txt", "campaign5_raw_results.txt", "campaign6_raw_results.txt"):
    for k, v in parse(f"{OUT}/{f}").items():
        e = raw.setdefault(k, {"verify": None, "runs": []})
        e["verify"] = e["verify"] or v["verify"]
        e["runs"].extend(v["runs"])
final = parse(f"{OUT}/final_results.txt")

def verdict(runs):
    if not runs:
        return "-"
    out = []
    for c, ex, n, keys in runs:
        v = "CAUGHT" if ex == 1 else ("harness error" if ex == 2 else "missed")
        out.append(f"{c}: {v}" + (f" [{keys[0]}]" if keys else ""))
    return "; ".join(out)

rows = []
for d in sorted(glob.glob(f"{OUT}/C*-m*"), key=lambda p: (os.path.basename(p).split("-")[0], int(os.path.basename(p).split("-m")[1]))):
    name = os.path.basename(d)
    k = int(name.split("-m")[1])
    what, needs = SUM.get(name, ["", ""])
    fin = final.get(name, {"runs": []})["runs"]
    if k <= 3:
        # first campaign: meta.json already written by tools/assemble_seeded.py; only add the final re-run
        meta = json.load(open(f"{d}/meta.json"))
        first = meta["checks_run"].get("first_campaign_harness", {})
        early = "; ".join(f"{c}: {'CAUGHT' if r['exit']==1 else 'missed'}" for c, r in first.items()) or "-"
        if fin:
            meta["checks_run"]["final_harness"] = {c: {"exit": ex, "violation_keys_reported": n, "first_keys": keys} for c, ex, n, keys in fin}
            json.dump(meta, open(f"{d}/meta.json", "w"), indent=1, ensure_ascii=False)
        rows.append((name, what + " - NEEDS: " + needs, early, verdict(fin)))
        continue
    r = raw.get(name, {"verify": None, "runs": []})
    # as delivered = the first run of each check in the raw file
    first = {}
    for c, ex, n, keys in r["runs"]:
        first.setdefault(c, (c, ex, n, keys))
    meta = {
        "property": name.split("-")[0],
        "campaign": 2 if k <= 7 else (3 if k <= 11 else (4 if k <= 15 else (5 if k <= 19 else 6))),
        "origin": "written by a fresh sub-agent that was given only the text of the property and its own scratch git worktree of /repo (nothing from /verif)",
        "what_it_changes": what,
        "what_it_needs_in_order_to_manifest": needs,
        "details": "notes.md (written by the sub-agent)",
        "confirmed_by_me": {
            "how": "tools/verify_seed.sh in a fresh scratch worktree: demo (as tests/demo.rs) without the patch; git apply; cargo test --offline --lib --no-fail-fast; demo with the patch",
            "result": r["verify"] or "see campaign raw results",
        },
        "checks_run": {
            "how": "tools/mutant_run.sh: patch applied to a scratch worktree, harness sources built against it, quick tier (default seed and budgets) of the named checks",
            "harness_as_it_was_when_the_change_arrived": {c: {"exit": ex, "violation_keys_reported": n, "first_keys": keys} for c, ex, n, keys in first.values()},
            "all_runs_in_order": [{"check": c, "exit": ex, "violation_keys_reported": n, "first_keys": keys} for c, ex, n, keys in r["runs"]],
            "final_harness": {c: {"exit": ex, "violation_keys_reported": n, "first_keys": keys} for c, ex, n, keys in fin},
        },
    }
    if os.path.exists(f"{d}/patch.as-delivered.diff"):
        meta["note"] = "patch.diff was rebased by me onto a later fix: commit in /repo (same mutation, verified again with tools/verify_seed.sh); patch.as-delivered.diff is the sub-agent's file"
    json.dump(meta, open(f"{d}/meta.json", "w"), indent=1, ensure_ascii=False)
    rows.append((name, what + " - NEEDS: " + needs, verdict(list(first.values())), verdict(fin)))

with open(f"{OUT}/RESULTS.md", "w") as f:
    f.write("# Seeded changes and which checks catch them\n\n")
    f.write("Each row is a property-breaking change that compiles and passes the existing suite (142 passed, the baseline's one always-failing test aside), with a demonstration that passes without and fails with it (all confirmed by me with tools/verify_seed.sh). m1-m3: first campaign, m4-m7: second, m8-m11: third, m12-m15: fourth, m16-m19: fifth (adversary-aware prompt), m20-m21: sixth (histories, clocks and cooperating sites). 'when it arrived' = harness as it was when the sub-agent delivered the change; 'final harness' = every stored change re-run against the harness as committed (tools/final_campaign.sh, quick tier, default seed).\n\n")
    f.write("| change | what / needs | when it arrived | final harness |\n|---|---|---|---|\n")
    for r in rows:
        f.write("| " + " | ".join(x.replace("|", "\\|") for x in r) + " |\n")
    caught = sum(1 for r in rows if "CAUGHT" in r[3])
    f.write(f"\n{len(rows)} changes; caught by the final harness: {caught}.\n")
print(f"{len(rows)} changes written")
