#!/bin/bash
# Run checks against a scratch copy of /repo with a patch applied (sensitivity testing).
#   tools/mutant_run.sh <name> <patch.diff> <ID>[,<ID>...] [runs]
# Builds a throw-away copy of the harness manifest that points at the scratch tree; /repo and
# /verif stay untouched. Everything lives under /tmp/mw/<name> and is removed afterwards
# (unless KEEP=1). Prints one line per check: <name> <ID> exit=<code> <first VIOLATION/OK line>.
set -u
NAME="$1"; PATCH="$2"; IDS="$3"; RUNS="${4:-}"
ROOT=/tmp/mw/$NAME
rm -rf "$ROOT"; mkdir -p "$ROOT"
git -C /repo worktree add -q --detach "$ROOT/repo" HEAD || exit 2
if [ "$PATCH" != "none" ]; then
  git -C "$ROOT/repo" apply "$PATCH" || { echo "$NAME: patch does not apply"; git -C /repo worktree remove --force "$ROOT/repo"; exit 2; }
fi
mkdir -p "$ROOT/sim/.cargo" "$ROOT/out"
# snapshot of the harness sources, so that edits in /verif/sim/src during the run cannot interfere
cp -r "${SIM_SRC:-/verif/sim/src}" "$ROOT/sim/src"
sed "s|path = \"/repo\"|path = \"$ROOT/repo\"|" /verif/sim/Cargo.toml > "$ROOT/sim/Cargo.toml"
cp /verif/sim/Cargo.lock "$ROOT/sim/Cargo.lock"
cp /verif/sim/.cargo/config.toml "$ROOT/sim/.cargo/config.toml"
cp /verif/known_findings.json "$ROOT/out/known_findings.json"
( cd "$ROOT/sim" && CARGO_TARGET_DIR="$ROOT/target" cargo build --release --offline >"$ROOT/build.log" 2>&1 ) || { echo "$NAME: BUILD FAILED"; tail -20 "$ROOT/build.log"; [ "${KEEP:-0}" = 1 ] || { git -C /repo worktree remove --force "$ROOT/repo"; rm -rf "$ROOT"; }; exit 2; }
for ID in $(echo "$IDS" | tr ',' ' '); do
  if [ -n "$RUNS" ]; then export VERIF_RUNS="$RUNS"; fi
  VERIF_REPO="$ROOT/repo" VERIF_DIR="$ROOT/out" VERIF_NO_RECHECK=1 VERIF_WORKERS="${WORKERS:-16}" "$ROOT/target/release/sim" check "$ID" "${TIER:-quick}" > "$ROOT/out/$ID.log" 2>&1
  rc=$?
  first=$(grep -E "^  oracle=" "$ROOT/out/$ID.log" | head -3 | cut -c1-160 | tr '\n' '|')
  echo "$NAME $ID exit=$rc $(grep -cE '^VIOLATION' "$ROOT/out/$ID.log") violations; $first"
  if [ -n "${SAVE:-}" ]; then mkdir -p "$SAVE"; cp "$ROOT/out/$ID.log" "$SAVE/$NAME-$ID.log"; fi
done
if [ "${KEEP:-0}" != 1 ]; then git -C /repo worktree remove --force "$ROOT/repo"; rm -rf "$ROOT"; fi
