#!/bin/bash
# Re-run EVERY stored seeded change (seeded/<ID>-m<k>/patch.diff) against the harness as it is now.
#   tools/final_campaign.sh [parallel streams, default 2] [workers per stream, default 8]
# Each change is run against the check of its own property (plus the checks listed below for changes that
# another property's check is expected to see as well).  One line per (change, check) goes to
# seeded/final_results.txt; tools/assemble_seeded2.py turns that into meta.json files and RESULTS.md.
STREAMS="${1:-2}"; W="${2:-8}"
OUT=/verif/seeded/final_results.txt
TMP=$(mktemp -d /tmp/final.XXXXXX)
extra() {  # further checks for a change
  case "$1" in
    C01-m4|C01-m8|C04-m4|C04-m8|C04-m1) echo ",C01,C04" ;;
    C01-m6|C01-m9) echo ",C18" ;;
    C01-m11) echo ",C18" ;;
    C04-m5) echo ",C06" ;;
    C04-m6|C04-m18|C04-m14) echo ",C09,C14" ;;
    C06-m16|C11-m19) echo ",C18" ;;
    C15-m12|C18-m12) echo ",C04" ;;
    C09-m18) echo ",C15" ;;
    C04-m9|C04-m19) echo ",C03" ;;
    C01-m19) echo ",C18" ;;
    C03-m4) echo ",C04" ;;
    C15-m7) echo ",C18" ;;
    *) echo "" ;;
  esac
}
# ONLY="C03 C11" restricts the campaign to the changes of those properties; their lines REPLACE the old ones in $OUT
ls -d /verif/seeded/C*-m* | sort -V > $TMP/all.txt
if [ -n "${ONLY:-}" ]; then grep -E "/($(echo $ONLY | tr ' ' '|'))-m" $TMP/all.txt > $TMP/sel.txt; mv $TMP/sel.txt $TMP/all.txt; fi
# MK="20 21" restricts it further to the changes with those numbers (m20, m21); again their lines replace the old ones
if [ -n "${MK:-}" ]; then grep -E -- "-m($(echo $MK | tr ' ' '|'))$" $TMP/all.txt > $TMP/sel.txt; mv $TMP/sel.txt $TMP/all.txt; fi
split -n l/$STREAMS -d $TMP/all.txt $TMP/part.
for part in $TMP/part.*; do
  (
    while read d; do
      name=$(basename $d); id=${name%%-*}
      checks="$id$(extra $name)"
      # unique list
      checks=$(echo $checks | tr ',' '\n' | awk '!s[$0]++' | paste -sd,)
      WORKERS=$W /verif/tools/mutant_run.sh $name $d/patch.diff $checks
    done < $part > $part.out 2>&1
  ) &
done
wait
if [ -n "${MK:-}" ] && [ -f $OUT ]; then
  sed -E 's|.*/||' $TMP/all.txt > $TMP/names.txt
  grep -vE "^($(paste -sd'|' $TMP/names.txt)) " $OUT > $TMP/keep.txt
  cat $TMP/keep.txt > $OUT
  cat $TMP/part.*.out | grep -E "^C[0-9][0-9]-m[0-9]+ " >> $OUT
  sort -V -o $OUT $OUT
elif [ -n "${ONLY:-}" ] && [ -f $OUT ]; then
  grep -vE "^($(echo $ONLY | tr ' ' '|'))-m" $OUT > $TMP/keep.txt
  cat $TMP/keep.txt > $OUT
  cat $TMP/part.*.out | grep -E "^C[0-9][0-9]-m[0-9]+ " >> $OUT
  sort -V -o $OUT $OUT
else
  cat $TMP/part.*.out | grep -E "^C[0-9][0-9]-m[0-9]+ " > $OUT
fi
rm -rf $TMP
wc -l $OUT
