#!/bin/bash
# Determinism proof: every check, N seeds, executed at W = 1, 4 and 16 worker processes (and W = 16
# twice); per-index trace hashes and observation hashes must be byte-identical across all executions.
#   tools/determinism.sh [runs-per-check]      (default 600)
N="${1:-600}"
BIN=/verif/sim/target/release/sim
OUT=$(mktemp -d /tmp/determinism.XXXXXX)
rc=0
for id in $($BIN list); do
  for w in 1 4 16 16b; do
    W=${w%b}
    VERIF_DIR=$OUT VERIF_RUNS=$N VERIF_WORKERS=$W VERIF_NO_RECHECK=1 VERIF_DUMP_HASHES=$OUT/$id.$w.txt $BIN check $id quick >/dev/null 2>&1
  done
  if cmp -s $OUT/$id.1.txt $OUT/$id.4.txt && cmp -s $OUT/$id.1.txt $OUT/$id.16.txt && cmp -s $OUT/$id.16.txt $OUT/$id.16b.txt && [ "$(wc -l < $OUT/$id.1.txt)" = "$N" ]; then
    echo "$id: $N indices identical at W=1,4,16,16"
  else
    echo "$id: MISMATCH"; rc=1
  fi
done
rm -rf "$OUT"
exit $rc
