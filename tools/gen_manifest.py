#!/usr/bin/env python3
"""Regenerates /verif/MANIFEST.json from the table below (kept in one place so
that the manifest stays consistent with what the harness implements)."""
import json, os, subprocess

HERE = os.path.dirname(os.path.dirname(os.path.abspath(__file__)))

TRUST = ("Trusted base: the harness (generator, executor, oracles, reference models), rustc/std/glibc, and the clock seam "
         "(the binary's own clock_gettime/gettimeofday/time symbols; self-tested at the start of every check). "
         "Real code under simulation: smartcalc, regex, chrono, serde_json. Seeded sampling: a clean batch is evidence, not proof.")

CHECKS = {
 "C01": dict(
    text="Seeded deterministic simulation of one calculator driven through histories of configuration changes and evaluations "
         "(one-shot and re-used sessions) of well-formed, mutated and junk texts, in known and unknown languages, under a scripted wall clock "
         "(frozen near day/month/year/leap boundaries, ticking, crossing a boundary or stepping back inside one evaluation) and six host time zones "
         "(time literals placed inside the skipped/repeated hour of the host zone). Oracle O-total: every call returns (panics are caught and attributed, "
         "hangs/aborts are caught by a watchdog and confirmed in a fresh process), status true, one slot per line, and a well-formed line after malformed ones "
         "evaluates as it does alone. A quarter of the runs register caller-supplied rules (patterns of two or more tokens) that accept or decline and feed lines that reach them; sessions are also evaluated again without a new text, given the identical text twice and switched to another language while alive. In a fifth of the runs another text is evaluated inside a rule-callback invocation of an evaluation in progress (both must return, status true, one slot per line); names hold clock times across days and years; a binding that fails in the interpreter is followed by a use of the name; unit families (also rejected duplicates of built-in ones) and set_date_rule are part of the configuration history. A run that does not return is confirmed alone in a fresh process. Exploration level: the space of texts is unbounded; what the simulator adds is the environment dimension (when and where the library runs).",
    design="6 (C01), 4, 5",
    technique="deterministic simulation: seeded clock/host-zone/config-history fault injection, steps scheduled inside rule-callback invocations, with a totality oracle and watchdog"),
 "C04": dict(
    text="Seeded deterministic simulation of 1..4 clients (one-shot and session style) and an administrator sharing one long-lived calculator: a seeded scheduler "
         "interleaves their calls, the clock advances between calls, sessions are re-used with texts of differing line counts, dropped and recreated, rule callbacks decline or unwind, "
         "the clock source fails inside one-shot evaluations. Oracle O-projection: every client step is re-executed on a replica calculator that saw all administrator calls but only a projection "
         "of the evaluations (session texts fed one line at a time; one-shot steps rotate over replicas) and must give the identical observation (status, slots, values, outputs, highlight tokens); "
         "O-probe: uniquely named probes bound in a session must read back in all later texts of that session and nowhere else; slot count per new text. "
         "Scheduling INSIDE evaluations: the only yield points of a synchronous evaluation are the invocations of caller-supplied rule callbacks; the simulator runs other clients' steps (one-shot or on another session, under their own frozen instant, possibly across midnight or a year) inside callback invocation k of an evaluation in progress, and both the interrupted evaluation and the inner steps must equal their sequential replicas. "
         "Further history kinds: a session evaluated again without a new text, the identical text set twice, set_language on a live session, the public format_result applied to a session's last values between two texts, a handful of sentinel lines repeated by every client through the whole history. "
         "Exploration level: histories are sampled, not enumerated.",
    design="6 (C04), 5",
    technique="deterministic simulation: seeded interleaving of clients/admin on one calculator (whole calls, and steps scheduled inside rule-callback invocations of an evaluation in progress), projection onto shadow replicas"),
 "C03": dict(
    text="Seeded deterministic simulation of 1..3 session clients and a one-shot client running generated straight-line programs (bindings, re-bindings, self-referential re-bindings, copies, uses inside phrases, failing lines between a binding and its use) over a vetted pool of one- and multi-word names (prefixes of each other, case variants) with values of all seven kinds; programs are delivered in seeded chunks through set_text, interleaved by a seeded scheduler, sessions are dropped and recreated, evaluated again without a new text, given the identical text twice and switched to another language and back while alive, the clock advances between events; lines use one or two variables (a name and a longer name that starts with it in one line). Oracle: executable environment model (value semantics, longest-name precedence, case-insensitive names, failed lines leave the environment untouched) judged line by line. Exploration level. Further simulated behaviour shared by the model-judged checks: in a fifth of the runs another text is evaluated INSIDE a rule-callback invocation of an evaluation in progress (own frozen instant, possibly the other language; one-shot outer steps under a ticking clock, judged by clock atomicity), in a sixth caller-supplied rules that match broadly and always decline are registered (every judged line must be unchanged), in a sixth a rule whose callback always unwinds (caught by the caller; the lost evaluation is skipped, everything afterwards is judged); sessions are evaluated before any text, again without a new text, given identical and earlier texts again, switched to another language and back, formatted through format_result between texts, shadowed by a twin session one text behind; the clock also steps BACK between calls. Names whose first word the alias table rewrites, names supplying the amount of a unit quantity, Turkish clients, names used before they are bound (and the same line again afterwards).",
    design="6 (C03), 5", technique="deterministic simulation: seeded chunking/interleaving of session programs against an executable environment model; steps scheduled inside rule-callback invocations, declining and unwinding callbacks as injected behaviour"),
 "C06": dict(
    text="Seeded deterministic simulation of session clients holding money values, one-shot conversions over all rated currencies (every literal spelling, all connectives, +,-,*,/ and money/money) and an administrator updating rates by code, alias and symbol (plus unknown names and currencies that had no rate), biased to land between a binding and its use. Oracles: rate-table model (amount * rate(B)/rate(A), data read from the repository's config.json), return value of update_currency, and 'exactly that currency': conversions not involving the updated currency are bit-identical before and after every update. Exploration level; the thorough tier walks all 992 ordered pairs as part of the workload. Further simulated behaviour shared by the model-judged checks: in a fifth of the runs another text is evaluated INSIDE a rule-callback invocation of an evaluation in progress (own frozen instant, possibly the other language; one-shot outer steps under a ticking clock, judged by clock atomicity), in a sixth caller-supplied rules that match broadly and always decline are registered (every judged line must be unchanged), in a sixth a rule whose callback always unwinds (caught by the caller; the lost evaluation is skipped, everything afterwards is judged); sessions are evaluated before any text, again without a new text, given identical and earlier texts again, switched to another language and back, formatted through format_result between texts, shadowed by a twin session one text behind; the clock also steps BACK between calls. The separator convention changes through both setters in either order. A fifth of the runs build the calculator with SmartCalc::load_from_json from a table in which the dollar does not stand at 1; names are also bound to sums of two currencies (their value depends on the table as it was then).",
    design="6 (C06), 5", technique="deterministic simulation: seeded rate-update histories interleaved with evaluations against a rate-table model; steps scheduled inside rule-callback invocations, declining and unwinding callbacks as injected behaviour"),
 "C09": dict(
    text="Seeded deterministic simulation of date lines (every spelling, en/tr, +/- days/weeks/months/years, differences, today/tomorrow/yesterday, impossible and year-less dates) under a scripted wall clock: boundary-biased instants over 1970..9998 (last/first seconds of days, months, years, leap days), advances between steps, and clock movement INSIDE one-shot evaluations (tick per read, crossing a day/month/year boundary with the crossing position swept over the read indices, backward steps). Oracles: proleptic-Gregorian calendar model (own implementation, self-tested against chrono) with the simulated date as 'today', and clock atomicity: the result under a moving clock must equal the result with the clock frozen at one of the values it returned. Exploration level. Further simulated behaviour shared by the model-judged checks: in a fifth of the runs another text is evaluated INSIDE a rule-callback invocation of an evaluation in progress (own frozen instant, possibly the other language; one-shot outer steps under a ticking clock, judged by clock atomicity), in a sixth caller-supplied rules that match broadly and always decline are registered (every judged line must be unchanged), in a sixth a rule whose callback always unwinds (caught by the caller; the lost evaluation is skipped, everything afterwards is judged); sessions are evaluated before any text, again without a new text, given identical and earlier texts again, switched to another language and back, formatted through format_result between texts, shadowed by a twin session one text behind; the clock also steps BACK between calls. set_date_rule (numeric dates as day/month/year or month/day/year) is part of the configuration history and the calendar model follows it.",
    design="6 (C09), 5", technique="deterministic simulation: scripted clock (boundary freezes, in-operation crossings) with calendar model and clock-atomicity oracle; steps scheduled inside rule-callback invocations, declining and unwinding callbacks as injected behaviour"),
 "C11": dict(
    text="Seeded deterministic simulation of time lines (24 h and am/pm literals, zone abbreviations and GMT offsets, conversions, +/- durations, differences) evaluated one-shot and through sessions that hold time values while an administrator changes the default zone, under a scripted clock and six host time zones with literals placed inside the host zone's skipped/repeated DST hour. Oracles: wall-time model (seconds modulo 86400, offsets in minutes) including the printed form, return value of set_timezone, clock atomicity; the model's answer is independent of instant and host zone, so agreement across them is instant/host independence. Exploration level. Further simulated behaviour shared by the model-judged checks: in a fifth of the runs another text is evaluated INSIDE a rule-callback invocation of an evaluation in progress (own frozen instant, possibly the other language; one-shot outer steps under a ticking clock, judged by clock atomicity), in a sixth caller-supplied rules that match broadly and always decline are registered (every judged line must be unchanged), in a sixth a rule whose callback always unwinds (caught by the caller; the lost evaluation is skipped, everything afterwards is judged); sessions are evaluated before any text, again without a new text, given identical and earlier texts again, switched to another language and back, formatted through format_result between texts, shadowed by a twin session one text behind; the clock also steps BACK between calls. Differences between a time held in a name and a literal are judged when both were read on the same simulated day; user units named like zone abbreviations are registered mid-run.",
    design="6 (C11), 5", technique="deterministic simulation: scripted clock, host-zone DST fault placement and default-zone change histories with a wall-time model; steps scheduled inside rule-callback invocations, declining and unwinding callbacks as injected behaviour"),
 "C14": dict(
    text="Seeded deterministic simulation of timestamp lines ('N to date', 'N to ZONE', '<date|time|date at time> as unix', inverse pairs held in session variables; N across 1970..9999, negative and beyond 2^31) under a scripted clock across years and default-zone changes between the halves of an inverse pair. Oracles: epoch model (seconds since 1970-01-01T00:00Z from civil date, wall time and offset, own calendar), inverse-ness through variables, digit-exact printing, clock atomicity. The pinned suite's only test of this feature depends on the year it was written in and always fails. Exploration level. Further simulated behaviour shared by the model-judged checks: in a fifth of the runs another text is evaluated INSIDE a rule-callback invocation of an evaluation in progress (own frozen instant, possibly the other language; one-shot outer steps under a ticking clock, judged by clock atomicity), in a sixth caller-supplied rules that match broadly and always decline are registered (every judged line must be unchanged), in a sixth a rule whose callback always unwinds (caught by the caller; the lost evaluation is skipped, everything afterwards is judged); sessions are evaluated before any text, again without a new text, given identical and earlier texts again, switched to another language and back, formatted through format_result between texts, shadowed by a twin session one text behind; the clock also steps BACK between calls. Date variables are asked for their timestamp under later default zones; a third of the instants are an exact start of day in the zone they are shown in. '<date> at <time>' is judged under non-UTC default zones as wall time in that zone (while it stays on the same UTC day).",
    design="6 (C14), 5", technique="deterministic simulation: scripted clock and default-zone change histories with an epoch model; steps scheduled inside rule-callback invocations, declining and unwinding callbacks as injected behaviour"),
 "C15": dict(
    text="Seeded deterministic simulation of a two-evaluation history per value: evaluate a value line of every printable kind (number, percent, money, duration, time with zone, date, unit quantity, based integer; en and tr), then evaluate its printed form at the same frozen, boundary-biased instant, host zone and configuration (separator/digit/flag/default-zone history through the public setters); the second print must equal the first. Clock-dependent kinds (date: year elision and default year; time: anchoring, host zone) are what the simulator contributes; clock-free kinds ride along and are counted separately. Exploration level. A third of the runs send every value through ONE long-lived session whose language is switched between values; a third register user-defined units while the calculator is already in use and round-trip quantities of those units. Always-declining broad rules and rate updates are part of the configuration history. Values are also printed by evaluations during which the other language was evaluated inside a rule callback (an echo rule hands the value back); dates reached only by arithmetic (early years), years below 1000, small negative values.",
    design="6 (C15), 5", technique="deterministic simulation: print/read fixed point under simulated clock, host zone, configuration history and evaluations nested in rule callbacks"),
 "C18": dict(
    text="Seeded deterministic simulation of registration histories (add_rule / delete_rule / add_dynamic_type / add_dynamic_type_item; valid, duplicate, unknown language/name/family) interleaved with evaluations; rule callbacks are simulator-owned and accept or decline as a pure function of (salt, rule, fields). Oracles: registration model for return values; callback log (first live rule in registration order is called first with fields bound by name, next one after a decline, result token of the accepting rule, transparency when all decline - against a replica without custom rules); O-survivors: at checkpoints a FRESH calculator receives only the surviving registrations in original order and must evaluate a probe set identically; rejected calls change nothing (probe set bit-identical); family chain model (product of declared factors). Exploration level. Extended workload: chain steps that are not proportional (offsets), lines with several spots joined by operators (judged when exactly one live rule accepts each spot; the generator aims lines at decline/accept constellations using the run's decision salt), keywords in another case and with non-ASCII letters; an evaluation that never returns is a violation (watchdog, confirmed alone in a fresh process). Typed fields (DURATION, DATE, family-restricted DYNAMIC_TYPE in another letter case), operands through a variable, and a pattern that contains the clock word 'today' (read at registration: the rule matches lines of that simulated day only); at checkpoints the fresh calculator is given the surviving registrations at their original simulated instants. set_date_rule and deletions by names of the library's own rule functions are part of the registration history (refused / without effect on any custom rule); probes are also evaluated inside callback invocations of other probes.",
    design="6 (C18), 5", technique="deterministic simulation: seeded registration/deletion histories under a simulated clock with callback decline injection and probes nested in callbacks; survivors replica (registrations replayed at their instants) and registration model"),
}

NOT_APPLICABLE = {
 "C02": "pure function of the line (arithmetic value); no clock, state, callback, schedule or fault in any clause - seeded input generation alone would not be simulation",
 "C05": "percentage formulas are pure functions of the line; nothing for a simulator to own",
 "C07": "number formatting is a pure function of (value, format settings); the order of setter calls does not matter",
 "C08": "separator independence relates two pure evaluations under two configurations; no history, clock or fault",
 "C10": "duration length, printing and flooring are pure functions of the line (the one clock read in DurationItem::as_time only feeds C11)",
 "C12": "unit conversion is a pure function of (line, unit tables); nested evaluation is recursion on one thread, not concurrency",
 "C13": "radix literals and base printing are pure functions of the line",
 "C16": "blank/comment/case invariance relates two pure evaluations",
 "C17": "highlight spans are a pure function of the line",
 "C19": "language parity relates two pure evaluations at the same instant; the clock selects a print format but no clause depends on it",
}

PENDING = {}

def main():
    repo_commits = subprocess.run(["git", "-C", "/repo", "log", "--format=%h %s"], capture_output=True, text=True).stdout.splitlines()
    checks = []
    for pid in sorted(CHECKS):
        c = CHECKS[pid]
        checks.append({
            "property_id": pid,
            "quick_cmd": f"./check {pid} quick",
            "thorough_cmd": f"./check {pid} thorough",
            "evidence_file": f"evidence/{pid}.json",
            "replay_cmd_template": f"./check {pid} --replay {{path}}",
            "engine": "sim",
            "level_claimed": {"category": "exploration", "text": c["text"], "design_ref": "DESIGN.md section " + c["design"]},
            "level_note": TRUST,
            "technique": c["technique"],
        })
    na = [{"property_id": k, "reason": v} for k, v in sorted(NOT_APPLICABLE.items())]
    na += [{"property_id": k, "reason": v} for k, v in sorted(PENDING.items()) if k not in CHECKS]
    m = {
        "version": 1,
        "setup_cmd": "./check build",
        "hooks": {
            "guard": "none",
            "enable": "no source hooks: the clock seam is the libc symbol clock_gettime defined by the harness binary, the host zone is the TZ variable of each worker process, callbacks are RuleTrait objects; /repo is built unmodified as a path dependency of /verif/sim",
            "baseline_off_cmd": "cd /repo && cargo test --workspace --no-fail-fast --offline",
            "source_commits": [],
            "add_only": True,
        },
        "engines": [{
            "name": "sim", "path": "sim/", "serves_properties": sorted(CHECKS),
            "kind_free_text": "deterministic simulator written for this repository (Rust, one binary): seeded trace generator, trace executor over the real smartcalc through its public API, scripted clock behind libc clock_gettime, worker processes per host time zone, delta-debugging shrinker, replay files",
        }],
        "checks": checks,
        "not_applicable": sorted(na, key=lambda x: x["property_id"]),
        "notes": "Genuine defects found are repaired by 'fix:' commits in /repo or listed in known_findings.json (see DESIGN.md). VERIF_SEED selects the base seed (default 1); VERIF_RUNS overrides the number of runs; VERIF_WORKERS the number of worker processes (default 16). Exit 2 = harness error.",
    }
    json.dump(m, open(os.path.join(HERE, "MANIFEST.json"), "w"), indent=1)
    print("wrote MANIFEST.json with", len(checks), "checks and", len(na), "not_applicable")

if __name__ == "__main__":
    main()
