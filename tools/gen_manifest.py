#!/usr/bin/env python3
"""Regenerates /verif/MANIFEST.json from the table below (kept in one place so
that the manifest stays consistent with what the harness implements)."""
import json, os, subprocess

HERE = os.path.dirname(os.path.dirname(os.path.abspath(__file__)))

TRUST = ("Trusted base: the harness (generator, executor, oracles, reference models), rustc/std/glibc, and the clock seam "
         "(the binary's own clock_gettime/gettimeofday/time symbols; self-tested at the start of every check). "
         "Real code under simulation: smartcalc, regex, chrono, serde_json. Seeded sampling: a clean batch is evidence, not proof.")

CHECKS = {
 "C01": dict(
    text="Seeded deterministic simulation of one calculator driven through histories of configuration changes and evaluations "
         "(one-shot and re-used sessions) of well-formed, mutated and junk texts, in known and unknown languages, under a scripted wall clock "
         "(frozen near day/month/year/leap boundaries, ticking, crossing a boundary or stepping back inside one evaluation) and six host time zones "
         "(time literals placed inside the skipped/repeated hour of the host zone). Oracle O-total: every call returns (panics are caught and attributed, "
         "hangs/aborts are caught by a watchdog and confirmed in a fresh process), status true, one slot per line, and a well-formed line after malformed ones "
         "evaluates as it does alone. Exploration level: the space of texts is unbounded; what the simulator adds is the environment dimension (when and where the library runs).",
    design="6 (C01), 4, 5",
    technique="deterministic simulation: seeded clock/host-zone/config-history fault injection with a totality oracle and watchdog"),
 "C04": dict(
    text="Seeded deterministic simulation of 1..4 clients (one-shot and session style) and an administrator sharing one long-lived calculator: a seeded scheduler "
         "interleaves their calls, the clock advances between calls, sessions are re-used with texts of differing line counts, dropped and recreated, rule callbacks decline or unwind, "
         "the clock source fails inside one-shot evaluations. Oracle O-projection: every client step is re-executed on a replica calculator that saw all administrator calls but only a projection "
         "of the evaluations (session texts fed one line at a time; one-shot steps rotate over replicas) and must give the identical observation (status, slots, values, outputs, highlight tokens); "
         "O-probe: uniquely named probes bound in a session must read back in all later texts of that session and nowhere else; slot count per new text. "
         "Exploration level: histories are sampled, not enumerated.",
    design="6 (C04), 5",
    technique="deterministic simulation: seeded interleaving of clients/admin on one calculator, projection onto shadow replicas"),
}

NOT_APPLICABLE = {
 "C02": "pure function of the line (arithmetic value); no clock, state, callback, schedule or fault in any clause - seeded input generation alone would not be simulation",
 "C05": "percentage formulas are pure functions of the line; nothing for a simulator to own",
 "C07": "number formatting is a pure function of (value, format settings); the order of setter calls does not matter",
 "C08": "separator independence relates two pure evaluations under two configurations; no history, clock or fault",
 "C10": "duration length, printing and flooring are pure functions of the line (the one clock read in DurationItem::as_time only feeds C11)",
 "C12": "unit conversion is a pure function of (line, unit tables); nested evaluation is recursion on one thread, not concurrency",
 "C13": "radix literals and base printing are pure functions of the line",
 "C16": "blank/comment/case invariance relates two pure evaluations",
 "C17": "highlight spans are a pure function of the line",
 "C19": "language parity relates two pure evaluations at the same instant; the clock selects a print format but no clause depends on it",
}

PENDING = {
 "C03": "claimed in DESIGN.md (session state over histories; environment model) - check not built yet in this revision",
 "C06": "claimed in DESIGN.md (rate-update histories; rate-table model) - check not built yet in this revision",
 "C09": "claimed in DESIGN.md (simulated calendar; clock atomicity) - check not built yet in this revision",
 "C11": "claimed in DESIGN.md (clock anchoring, default-zone changes, host zone) - check not built yet in this revision",
 "C14": "claimed in DESIGN.md (epoch model under a simulated clock) - check not built yet in this revision",
 "C15": "claimed in DESIGN.md (print/read fixed point under simulated clock and host zone) - check not built yet in this revision",
 "C18": "claimed in DESIGN.md (registration histories; survivors replica) - check not built yet in this revision",
}

def main():
    repo_commits = subprocess.run(["git", "-C", "/repo", "log", "--format=%h %s"], capture_output=True, text=True).stdout.splitlines()
    checks = []
    for pid in sorted(CHECKS):
        c = CHECKS[pid]
        checks.append({
            "property_id": pid,
            "quick_cmd": f"./check {pid} quick",
            "thorough_cmd": f"./check {pid} thorough",
            "evidence_file": f"evidence/{pid}.json",
            "replay_cmd_template": f"./check {pid} --replay {{path}}",
            "engine": "sim",
            "level_claimed": {"category": "exploration", "text": c["text"], "design_ref": "DESIGN.md section " + c["design"]},
            "level_note": TRUST,
            "technique": c["technique"],
        })
    na = [{"property_id": k, "reason": v} for k, v in sorted(NOT_APPLICABLE.items())]
    na += [{"property_id": k, "reason": v} for k, v in sorted(PENDING.items()) if k not in CHECKS]
    m = {
        "version": 1,
        "setup_cmd": "./check build",
        "hooks": {
            "guard": "none",
            "enable": "no source hooks: the clock seam is the libc symbol clock_gettime defined by the harness binary, the host zone is the TZ variable of each worker process, callbacks are RuleTrait objects; /repo is built unmodified as a path dependency of /verif/sim",
            "baseline_off_cmd": "cd /repo && cargo test --workspace --no-fail-fast --offline",
            "source_commits": [],
            "add_only": True,
        },
        "engines": [{
            "name": "sim", "path": "sim/", "serves_properties": sorted(CHECKS),
            "kind_free_text": "deterministic simulator written for this repository (Rust, one binary): seeded trace generator, trace executor over the real smartcalc through its public API, scripted clock behind libc clock_gettime, worker processes per host time zone, delta-debugging shrinker, replay files",
        }],
        "checks": checks,
        "not_applicable": sorted(na, key=lambda x: x["property_id"]),
        "notes": "Genuine defects found are repaired by 'fix:' commits in /repo or listed in known_findings.json (see DESIGN.md). VERIF_SEED selects the base seed (default 1); VERIF_RUNS overrides the number of runs; VERIF_WORKERS the number of worker processes (default 16). Exit 2 = harness error.",
    }
    json.dump(m, open(os.path.join(HERE, "MANIFEST.json"), "w"), indent=1)
    print("wrote MANIFEST.json with", len(checks), "checks and", len(na), "not_applicable")

if __name__ == "__main__":
    main()
