#!/bin/bash
# tools/process_seeds6.sh <ID> [checks] : verify and run the checks against the sixth-campaign
# sub-agent changes m20..m21 of property <ID> (delivered under /tmp/s6out/<ID>/m<k>)
ID="$1"; CHECKS="${2:-$ID}"
mkdir -p /tmp/seedres6
for k in 20 21; do
  D=/tmp/s6out/$ID/m$k
  [ -f "$D/patch.diff" ] || { echo "$ID-m$k missing"; continue; }
  /verif/tools/verify_seed.sh $ID-m$k $D
  SAVE=/tmp/seedres6 WORKERS=${WORKERS:-8} /verif/tools/mutant_run.sh $ID-m$k $D/patch.diff $CHECKS ${RUNS:-}
done 2>&1 | tee /tmp/seedres6/$ID.txt
