#!/bin/bash
# tools/process_seeds4.sh <ID> [checks] : verify and run the checks against the fourth-campaign
# sub-agent changes m12..m15 of property <ID> (delivered under /tmp/s4out/<ID>/m<k>)
ID="$1"; CHECKS="${2:-$ID}"
mkdir -p /tmp/seedres4
for k in 12 13 14 15; do
  D=/tmp/s4out/$ID/m$k
  [ -f "$D/patch.diff" ] || { echo "$ID-m$k missing"; continue; }
  /verif/tools/verify_seed.sh $ID-m$k $D
  SAVE=/tmp/seedres4 WORKERS=${WORKERS:-8} /verif/tools/mutant_run.sh $ID-m$k $D/patch.diff $CHECKS ${RUNS:-}
done 2>&1 | tee /tmp/seedres4/$ID.txt
