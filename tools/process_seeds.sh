#!/bin/bash
# tools/process_seeds.sh <ID> : verify and run the checks against the three sub-agent mutants of property <ID>
ID="$1"; CHECKS="${2:-$ID}"
mkdir -p /tmp/seedres
for k in 1 2 3; do
  D=/tmp/wt/$ID/_seeds/m$k
  [ -f "$D/patch.diff" ] || { echo "$ID-m$k missing"; continue; }
  /verif/tools/verify_seed.sh $ID-m$k $D
  SAVE=/tmp/seedres WORKERS=${WORKERS:-5} /verif/tools/mutant_run.sh $ID-m$k $D/patch.diff $CHECKS
done 2>&1 | tee /tmp/seedres/$ID.txt
