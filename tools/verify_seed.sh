#!/bin/bash
# Confirm a seeded change independently: in a fresh scratch worktree of /repo
#  1. the demo passes WITHOUT the patch,
#  2. the patch applies and compiles, the existing suite gives 142 passed / 1 failed (date_tests),
#  3. the demo FAILS with the patch.
#   tools/verify_seed.sh <name> <dir with patch.diff and demo.rs>
# prints: <name> suite=<passed>/<failed>[:failed tests] demo_without=<pass|fail> demo_with=<pass|fail>
NAME="$1"; DIR="$2"
ROOT=/tmp/vs/$NAME
rm -rf "$ROOT"; mkdir -p /tmp/vs
git -C /repo worktree add -q --detach "$ROOT" HEAD || exit 2
export CARGO_TARGET_DIR=/tmp/vs/target-$NAME
mkdir -p "$ROOT/tests"; cp "$DIR/demo.rs" "$ROOT/tests/demo.rs"
( cd "$ROOT" && cargo test --offline --test demo >/tmp/vs/$NAME.demo0.log 2>&1 ); d0=$?
if ! git -C "$ROOT" apply "$DIR/patch.diff" 2>/tmp/vs/$NAME.apply.log; then echo "$NAME patch-does-not-apply"; git -C /repo worktree remove --force "$ROOT"; rm -rf "$CARGO_TARGET_DIR"; exit 1; fi
( cd "$ROOT" && cargo test --offline --lib --no-fail-fast >/tmp/vs/$NAME.suite.log 2>&1 )
res=$(grep -E "^test result" /tmp/vs/$NAME.suite.log | head -1 | sed -E 's/.* ([0-9]+) passed; ([0-9]+) failed.*/\1\/\2/')
failed=$(grep -E "^test .* FAILED" /tmp/vs/$NAME.suite.log | awk '{print $2}' | tr '\n' ',')
( cd "$ROOT" && cargo test --offline --test demo >/tmp/vs/$NAME.demo1.log 2>&1 ); d1=$?
echo "$NAME suite=${res:-build-failed}:$failed demo_without=$([ $d0 = 0 ] && echo pass || echo fail) demo_with=$([ $d1 = 0 ] && echo pass || echo fail)"
git -C /repo worktree remove --force "$ROOT"; rm -rf "$CARGO_TARGET_DIR"
