#!/usr/bin/env python3
"""Assemble /verif/seeded/<ID>-m<k>/ from the sub-agents' scratch worktrees (/tmp/wt/<ID>/_seeds/m<k>) and the
result files of tools/verify_seed.sh / tools/mutant_run.sh (/tmp/seedres = harness as of the first campaign,
/tmp/seedres2 = strengthened harness). Writes meta.json per change and seeded/RESULTS.md."""
import json, os, re, shutil, glob

IDS = ["C01", "C03", "C04", "C06", "C09", "C11", "C14", "C15", "C18"]
OUT = "/verif/seeded"

def grep_lines(paths, prefix):
    out = []
    for p in paths:
        if os.path.exists(p):
            for l in open(p, errors="replace"):
                if l.startswith(prefix + " "):
                    out.append(l.rstrip("\n"))
    return out

def first_paragraph(notes):
    txt = open(notes, errors="replace").read()
    paras = [p.strip() for p in re.split(r"\n\s*\n", txt) if p.strip() and not p.strip().startswith("#")]
    return paras[0][:900] if paras else ""

SUMMARY = json.load(open("/verif/tools/seed_summaries.json"))
rows = []
os.makedirs(OUT, exist_ok=True)
for pid in IDS:
    for k in (1, 2, 3):
        src = f"/tmp/wt/{pid}/_seeds/m{k}"
        name = f"{pid}-m{k}"
        if not os.path.exists(src + "/patch.diff"):
            continue
        v1 = grep_lines(glob.glob("/tmp/seedres/*.txt"), name)
        v2 = grep_lines(glob.glob("/tmp/seedres2/*.txt"), name)
        verify = [l for l in v1 + v2 if " suite=" in l]
        det1 = [l for l in v1 if " exit=" in l]
        det2 = [l for l in v2 if " exit=" in l]
        ok = bool(verify) and "suite=142/1:tests::general_test::date_tests" in verify[0] and "demo_without=pass demo_with=fail" in verify[0]
        if not ok:
            rows.append((name, "NOT KEPT (verification failed: %s)" % (verify[0] if verify else "no result"), "", ""))
            continue
        dst = f"{OUT}/{name}"
        os.makedirs(dst, exist_ok=True)
        for f in ("patch.diff", "demo.rs", "notes.md"):
            shutil.copy(f"{src}/{f}", f"{dst}/{f}")
        def summarize(lines):
            res = {}
            for l in lines:
                m = re.match(r"\S+ (\S+) exit=(\d+) (\d+) violations; ?(.*)", l)
                if m:
                    keys = re.findall(r"key=(.*?) runs=(\d+)", m.group(4))
                    res[m.group(1)] = {"exit": int(m.group(2)), "violation_keys_reported": int(m.group(3)), "first_keys": [f"{a} ({b} runs)" for a, b in keys]}
            return res
        meta = {
            "property": pid,
            "origin": "written by a fresh sub-agent that was given only the text of the property and its own scratch git worktree of /repo (nothing from /verif)",
            "what_it_changes": SUMMARY.get(name, ["", ""])[0],
            "what_it_needs_in_order_to_manifest": SUMMARY.get(name, ["", ""])[1],
            "details": "notes.md (written by the sub-agent)",
            "confirmed_by_me": {
                "how": "tools/verify_seed.sh in a fresh scratch worktree: demo (as tests/demo.rs) without the patch; git apply; cargo test --offline --lib --no-fail-fast; demo with the patch",
                "suite_with_patch": "142 passed, 1 failed (tests::general_test::date_tests, which fails on the unchanged tree too)",
                "demo_without_patch": "pass", "demo_with_patch": "fail",
            },
            "checks_run": {
                "how": "tools/mutant_run.sh: patch applied to a scratch worktree, harness sources built against it, quick tier (default seed and budgets) of the named checks",
                "first_campaign_harness": summarize(det1),
                "strengthened_harness": summarize(det2),
            },
        }
        json.dump(meta, open(f"{dst}/meta.json", "w"), indent=1, ensure_ascii=False)
        def verdict(d):
            if not d: return "-"
            return "; ".join(f"{c}: {'CAUGHT' if r['exit']==1 else ('harness error' if r['exit']==2 else 'missed')}" + (f" [{r['first_keys'][0]}]" if r['first_keys'] else "") for c, r in d.items())
        rows.append((name, meta["what_it_changes"] + " - NEEDS: " + meta["what_it_needs_in_order_to_manifest"], verdict(summarize(det1)), verdict(summarize(det2))))

with open(f"{OUT}/RESULTS.md", "w") as f:
    f.write("# Seeded changes and which checks catch them\n\n")
    f.write("Each row is a property-breaking change that compiles and passes the existing suite (142 passed, the baseline's one always-failing test aside), with a demonstration that passes without and fails with it (all confirmed by me with tools/verify_seed.sh). 'first campaign' = harness as it was when the sub-agents delivered; 'strengthened' = harness after I added workload/oracles for what the first campaign missed (only re-run where needed or useful).\n\n")
    f.write("| change | what / needs | first campaign | strengthened harness |\n|---|---|---|---|\n")
    for r in rows:
        f.write("| %s | %s | %s | %s |\n" % tuple(x.replace("|", "/") for x in r))
print("assembled", len(rows), "rows")
