#!/bin/bash
# tools/process_seeds2.sh <ID> [checks] : verify and run the checks against the second-campaign
# sub-agent changes m4..m7 of property <ID> (delivered under /tmp/s2out/<ID>/m<k>)
ID="$1"; CHECKS="${2:-$ID}"
mkdir -p /tmp/seedres2
for k in 4 5 6 7; do
  D=/tmp/s2out/$ID/m$k
  [ -f "$D/patch.diff" ] || { echo "$ID-m$k missing"; continue; }
  /verif/tools/verify_seed.sh $ID-m$k $D
  SAVE=/tmp/seedres2 WORKERS=${WORKERS:-8} /verif/tools/mutant_run.sh $ID-m$k $D/patch.diff $CHECKS ${RUNS:-}
done 2>&1 | tee /tmp/seedres2/$ID.txt
