#!/bin/bash
# tools/process_seeds5.sh <ID> [checks] : verify and run the checks against the fifth-campaign
# sub-agent changes m16..m19 of property <ID> (delivered under /tmp/s5out/<ID>/m<k>)
ID="$1"; CHECKS="${2:-$ID}"
mkdir -p /tmp/seedres5
for k in 16 17 18 19; do
  D=/tmp/s5out/$ID/m$k
  [ -f "$D/patch.diff" ] || { echo "$ID-m$k missing"; continue; }
  /verif/tools/verify_seed.sh $ID-m$k $D
  SAVE=/tmp/seedres5 WORKERS=${WORKERS:-8} /verif/tools/mutant_run.sh $ID-m$k $D/patch.diff $CHECKS ${RUNS:-}
done 2>&1 | tee /tmp/seedres5/$ID.txt
